"""Extension of the specfun engine used by C18, C19, C20 (builderJ).  vf/specfun.py itself is not modified.

What this adds on top of vf.specfun:
  * Cell: a Regime with a cost class, precision-aware generators (gen(r, bits, p)), an optional third reference source
    R3 (``oracle``: a defining relation / different formula evaluated in the *reference* library) and an optional
    exclusion of R1 for that cell (release 1.3.0 adjudicated wrong there).
  * consensus3(): the rule of DESIGN 2.3.3 with three sources -- a reference value is accepted when two of
    R1 (release at p+64 and 2p+200, self-consistent), R2 (tree at 3p+300) and R3 (oracle at p+64 and 2p+200,
    self-consistent) agree to 2^-(p+32).  With R3 present a tree that is wrong at *every* precision is decided
    (R1+R3), which the two-source engine can only report as a reference conflict.
  * run(): cost-balanced deterministic distribution of the cells over the shards; a fixed number of evaluations per
    cell and tier (seed independent set of cells; the seed only varies the concrete arguments and precisions).
  * generator helpers aimed at algorithm switch points that depend on the precision.
  * time limits are CPU-time limits of the worker (ITIMER_PROF), so no verdict depends on the load of the machine; a call
    under test that does not return within its limit while all reference evaluations together (release at two precisions
    and the tree itself at 3p+300 bits) take less than a tenth of it is reported as <PROP>/<function>/no-return.
  * ENVELOPE helpers (capped, pole distance in the property modules): distance to a pole / singular point >= 4 * 2^-p.
Verdict discipline is the one of vf.specfun.evaluate_case (guard band, undecided never folded).
"""
import math, time, collections
from . import refmodel, gens as G
from . import specfun as S
from .specfun import Regime, Timeout, _fmt, _unfmt
import signal


def _prof_alarm(signum, frame):
    raise Timeout()


class time_limit(object):
    """limit on the CPU time of this process (ITIMER_PROF), so that verdicts do not depend on the load of the machine
    (the code under test is pure Python and CPU bound)"""

    def __init__(self, seconds):
        self.s = seconds

    def __enter__(self):
        self.old = signal.signal(signal.SIGPROF, _prof_alarm)
        signal.setitimer(signal.ITIMER_PROF, self.s)

    def __exit__(self, *a):
        signal.setitimer(signal.ITIMER_PROF, 0)
        signal.signal(signal.SIGPROF, self.old)
        return False

from .catalog import R, C, I, raw_rand, build, canon, raw_from_float

PRECS_LIGHT = S.PRECS_LIGHT
PRECS_HEAVY = S.PRECS_HEAVY
PRECS_XHEAVY = [10, 15, 24, 30, 53, 64, 100]

# evaluations per cell: cost class -> (quick, thorough)
N_PER_CELL = {1: (40, 200), 2: (15, 75), 3: (6, 30), 4: (2, 10)}
# estimated seconds per evaluation (all sources) by cost class; used only for balancing the shards
EST_COST = {1: 0.01, 2: 0.08, 3: 0.4, 4: 2.0}


class Cell(Regime):
    """cost: 1 light .. 4 very heavy;  pgen: gen takes (r, bits, p);  oracle(lib_mp, *args) -> value: R3 evaluated
    in the reference library;  no_r1: release 1.3.0 excluded for this cell (must then have an oracle);
    note: free text shown in the evidence for adjudicated cells"""

    def __init__(self, label, gen, fn=None, kwargs=None, precs=None, cost=1, tol_exp=None, pgen=False, oracle=None,
                 no_r1=False, tmax=None, n=None, maxbits=None):
        Regime.__init__(self, label, gen, fn=fn, kwargs=kwargs, precs=precs, heavy=(cost >= 3), tol_exp=tol_exp)
        self.cost, self.pgen, self.oracle, self.no_r1, self.tmax, self.n = cost, pgen, oracle, no_r1, tmax, n
        self.maxbits = maxbits
        assert not (no_r1 and oracle is None)


# ---- generator helpers (all return spec generators; *_p variants take (r, bits, p)) -----------------------

def dy(num, k):
    """the dyadic num * 2^-k as a raw tuple"""
    return canon(1 if num < 0 else 0, abs(num), -k)


def fl(x, bits=53):
    """nearest ``bits``-bit dyadic of a Python float (exactly the float for bits >= 53)"""
    raw = raw_from_float(x)
    if bits >= 53 or not raw[1]:
        return raw
    s, m, e, bc = raw
    sh = bc - bits
    if sh > 0:
        m = (m >> sh) | 1
        e += sh
    return canon(s, m, e)


def real_p(f, sign=None):
    """real with magnitude 2^[lo,hi] where (lo, hi) = f(p)"""
    def g(r, b, p):
        lo, hi = f(p)
        return R(raw_rand(r, b, int(lo), int(hi), sign))
    return g


def around(center, width, sign=1, cplx=None):
    """real (sign*) (center(p) + U(-width, width)) with ``bits`` mantissa bits: both sides of a switch point"""
    def g(r, b, p):
        c = center(p) if callable(center) else center
        w = width(p) if callable(width) else width
        x = c + r.uniform(-w, w)
        raw = fl(sign * x, max(b, 12))
        if cplx is not None:
            return C(raw, raw_rand(r, b, cplx[0], cplx[1]))
        return R(raw)
    return g


def near_c(num, shift, kmin=4, kmax=40, pk=None, im=None):
    """center +- 2^-k where center = num / 2^shift is a high-precision constant (e.g. a zero of the function);
    pk(p) -> (kmin, kmax) makes the distance depend on the precision; im=(lo,hi): add an imaginary part 2^[lo,hi]"""
    def g(r, b, p):
        lo, hi = pk(p) if pk else (kmin, kmax)
        k = r.randint(int(lo), int(max(lo, hi)))
        if k <= shift:
            n = (num >> (shift - k))
        else:
            n = num << (k - shift)
        n += r.choice([-1, 1, 2, -2])
        if n == 0:
            n = 1
        raw = dy(n, k)
        if im is not None:
            ilo, ihi = im(p) if callable(im) else im
            return C(raw, raw_rand(r, min(b, 30), int(ilo), int(ihi)))
        return R(raw)
    return g


def near_p(center, pk, cplx=None):
    """integer/dyadic center (int or (num, den_pow2)) +- 2^-k with k in pk(p)"""
    if isinstance(center, int):
        num, shift = center, 0
    else:
        num, shift = center
    return near_c(num, shift, pk=pk, im=cplx)


def capped(pk, kmin=3):
    """ENVELOPE for cells next to a pole / singular point ("away from poles / singularities"): the distance 2^-k to the
    singular point is at least 4 units of 2^-p, i.e. k <= p - 2 (closer arguments round to the singular point itself at the
    working precision).  Wraps a pk(p) -> (lo, hi) function.  Fixed before looking at any result."""
    def f(p):
        lo, hi = pk(p)
        cap = max(kmin, p - 2)
        return (max(kmin, min(lo, cap)), max(kmin, min(hi, cap)))
    return f


def near_any(centers, kmin=4, kmax=40, pk=None, im=None):
    """like near_c but the centre is drawn from a list of integers"""
    def g(r, b, p):
        c = r.choice(centers)
        return near_c(c, 0, kmin, kmax, pk, im)(r, b, p)
    return g


def cplx(re_gen, im_gen):
    """complex from two real generators (each may be p-aware or not; see args_p)"""
    def g(r, b, p):
        a = _call(re_gen, r, b, p)
        c = _call(im_gen, r, b, p)
        return C(a[1], c[1])
    g._p = True
    return g


def polar(mod_lo, mod_hi, arg_lo=-math.pi, arg_hi=math.pi):
    """complex with modulus in [mod_lo, mod_hi] (floats) and argument in [arg_lo, arg_hi]"""
    def g(r, b, p):
        m = r.uniform(mod_lo, mod_hi)
        t = r.uniform(arg_lo, arg_hi)
        bb = max(min(b, 53), 12)
        return C(fl(m * math.cos(t), bb), fl(m * math.sin(t), bb))
    g._p = True
    return g


def uniform(lo, hi):
    """real uniformly in [lo, hi] (floats), ``bits`` mantissa bits (at most 53)"""
    def g(r, b, p):
        return R(fl(r.uniform(lo, hi), max(min(b, 53), 8)))
    g._p = True
    return g


def const(spec):
    return lambda r, b: spec


def ints(*vals):
    return lambda r, b: I(r.choice(vals))


def _call(gen, r, b, p):
    if getattr(gen, '_p', False):
        return gen(r, b, p)
    try:
        code = gen.__code__
        if code.co_argcount >= 3:
            return gen(r, b, p)
    except AttributeError:
        pass
    return gen(r, b)


def args_p(*gens):
    """combine per-argument generators (2- or 3-argument ones) into a Cell.gen with signature (r, bits, p)"""
    def g(r, b, p):
        return [_call(x, r, b, p) for x in gens]
    return g


def cell(label, *gens, **kw):
    """Cell(label, args_p(*gens), pgen=True, **kw)"""
    kw['pgen'] = True
    return Cell(label, args_p(*gens), **kw)


def raised(f, extra):
    """R3 for cells where release 1.3.0 is not self-consistent at p+64 bits because of a known cancellation:
    f (a function name or a callable f(mp, *args)) evaluated in the reference library with extra(mp, *args) more bits"""
    def g(mp, *a):
        with mp.extraprec(int(extra(mp, *a))):
            return getattr(mp, f)(*a) if isinstance(f, str) else f(mp, *a)
    return g


# ---- three-source consensus -----------------------------------------------------------------------------

def _self_consistent(rmp, f, specs, p, kwargs):
    """evaluate in the reference library at p+64 and 2p+200; return (value@hi or None, reason)"""
    try:
        lo = refmodel.call(rmp, f, specs, p + 64, kwargs)
        hi = refmodel.call(rmp, f, specs, 2 * p + 200, kwargs)
    except Timeout:
        raise
    except Exception as e:
        return None, 'raised:' + type(e).__name__
    if not (refmodel._numeric(lo) and refmodel._numeric(hi)):
        return None, 'non-numeric'
    lo, hi = rmp.mpmathify(lo), rmp.mpmathify(hi)
    if refmodel._relclose(rmp, lo, hi, p + 32):
        return hi, 'ok'
    return None, 'not self-consistent'


def _limited(tlim, f, *a):
    """f(*a) under a wall-clock limit; returns (value, reason).  A source that does not finish is 'timeout'."""
    Rm = refmodel.ref()
    try:
        with time_limit(tlim):
            return f(*a)
    except Timeout:
        Rm.mp.prec = 53
        return None, 'timeout'


def _tree_hi(tree_mp, rmp, fn, specs, p, kwargs):
    try:
        t_hi = refmodel.call(tree_mp, fn, specs, 3 * p + 300, kwargs)
    except Timeout:
        tree_mp.prec = 53
        raise
    except Exception as e:
        return None, 'raised:' + type(e).__name__
    if refmodel._numeric(t_hi):
        return refmodel.to_ref(rmp, t_hi), 'ok'
    return None, 'non-numeric'


def consensus3(tree_mp, fn, specs, p, kwargs, reg, tsrc=60.0):
    """(refvalue, info) following DESIGN 2.3.3; info names the agreeing pair or the reason for no decision.
    Every source runs under its own wall-clock limit tsrc (a source that does not finish is unavailable)."""
    Rm = refmodel.ref()
    rmp = Rm.mp
    old = rmp.prec
    r1 = r3 = None
    why1 = 'excluded'
    if not reg.no_r1:
        r1, why1 = _limited(tsrc, _self_consistent, rmp, fn, specs, p, kwargs)
        rmp.prec = old
    try:
        t_hi_r, why2 = _limited(tsrc, _tree_hi, tree_mp, rmp, fn, specs, p, kwargs)
        if why2 == 'timeout':
            tree_mp.prec = 53
        rmp.prec = 2 * p + 264
        if r1 is not None and t_hi_r is not None and refmodel._relclose(rmp, r1, t_hi_r, p + 32):
            return r1, 'R1+R2'
        if reg.oracle is not None:
            rmp.prec = old
            r3, why3 = _limited(tsrc, _self_consistent, rmp, reg.oracle, specs, p, None)
            rmp.prec = 2 * p + 264
            if r3 is not None:
                if r1 is not None and refmodel._relclose(rmp, r1, r3, p + 32):
                    return r1, 'R1+R3 (tree@hi %s)' % ('differs' if t_hi_r is not None else why2)
                if t_hi_r is not None and refmodel._relclose(rmp, t_hi_r, r3, p + 32):
                    return r3, 'R2+R3 (R1 %s)' % ('differs' if r1 is not None else why1)
            return None, 'no two sources agree (R1 %s, R2 %s, R3 %s)' % (why1, why2, why3)
        if r1 is not None and t_hi_r is not None:
            return None, 'reference-conflict R1 vs tree@hi'
        if r1 is not None:
            return None, 'tree@hi %s; single source' % why2
        if t_hi_r is not None:
            return None, 'R1 %s; single source' % why1
        return None, 'R1 %s; tree@hi %s' % (why1, why2)
    finally:
        rmp.prec = old


def evaluate(tree_mp, prop, fname, reg, specs, p, rec, tol_exp=8, tmax=20.0):
    """one evaluation: tree at p against consensus3.  Same verdict rules as vf.specfun.evaluate_case."""
    Rm = refmodel.ref()
    rmp = Rm.mp
    fn = reg.fn or fname
    tol_exp = reg.tol_exp if reg.tol_exp is not None else tol_exp
    tmax = reg.tmax or tmax
    ident = (fname, reg.label, _fmt(specs), p)
    case = {'function': fname, 'regime': reg.label, 'args': _fmt(specs), 'prec': p, 'kwargs': repr(reg.kwargs)}
    cls = '%s/%s' % (fname, reg.label)
    key = '%s/%s/%s' % (prop, fname, reg.label)
    exc = None
    val = None
    try:
        with time_limit(tmax):
            try:
                val = refmodel.call(tree_mp, fn, specs, p, reg.kwargs)
            except Timeout:
                raise
            except Exception as e:
                exc = e
    except Timeout:
        tree_mp.prec = 53
        # the call under test did not return within tmax.  If all reference evaluations together (release at two
        # precisions and the tree itself at 3p+300 bits) need less than tmax/20, the call is classified as not returning
        # a value (violation, key .../no-return); otherwise the case stays undecided.
        t0 = time.process_time()
        refv = None
        try:
            refv, info = consensus3(tree_mp, fn, specs, p, reg.kwargs, reg, tsrc=tmax / 20.0)
        except Exception:
            tree_mp.prec = 53
            rmp.prec = 53
        if time.process_time() - t0 > tmax / 10.0:
            refv = None
        if refv is not None:
            rec.case(ident, True, cls)
            rec.violation('%s/%s/no-return' % (prop, fname), '%s does not return within %.0f s of CPU time at prec %d (all reference evaluations, incl. the '
                          'tree at %d bits, took %.3f s)' % (fname, tmax, p, 3 * p + 300, time.process_time() - t0), case,
                          observed='no value after %.0f s of CPU time' % tmax, expected=str(refv)[:60], severity=None)
            return 'violated'
        rec.case(ident, False, cls)
        rec.undecided('timeout-tree', case)
        return 'undecided'
    try:
        refv, info = consensus3(tree_mp, fn, specs, p, reg.kwargs, reg, tsrc=tmax * 3)
    except Exception as e:
        tree_mp.prec = 53
        rmp.prec = 53
        rec.case(ident, False, cls)
        rec.undecided('reference-error:' + type(e).__name__, case)
        return 'undecided'
    if info != 'R1+R2':
        rec.cls('consensus/' + info.split(' (')[0])
    if exc is not None:
        rec.case(ident, True, cls)
        if refv is not None:
            rec.violation(key + '/raises-' + type(exc).__name__,
                          '%s raises %s at prec %d where the function is defined (two reference sources agree on a value: %s)'
                          % (fname, type(exc).__name__, p, info), case, observed=repr(exc)[:200], expected=str(refv)[:60],
                          severity=None)
            return 'violated'
        rec.cls('raised/' + type(exc).__name__)
        rec.note('raised', {'case': case, 'exc': repr(exc)[:120], 'reference': info}, cap=30)
        return 'raised'
    if refv is None:
        rec.case(ident, False, cls)
        rec.undecided(info.split(' (')[0], case)
        return 'undecided'
    if not refmodel._numeric(val):
        rec.case(ident, False, cls)
        rec.undecided('non-numeric result', case)
        return 'undecided'
    comp = refmodel.to_ref(rmp, val)
    old = rmp.prec
    rmp.prec = 2 * p + 300
    try:
        if rmp.isnan(comp) or rmp.isinf(comp) or rmp.isinf(refv) or rmp.isnan(refv):
            rec.case(ident, False, cls)
            if rmp.isinf(comp) and rmp.isinf(refv) and comp == refv:
                return 'held'
            rec.undecided('non-finite', case)
            return 'undecided'
        if refv == 0:
            rec.case(ident, True, cls)
            if comp == 0:
                return 'held'
            rec.undecided('exact-zero-reference', case)
            return 'undecided'
        err = float(rmp.ldexp(abs(comp - refv) / abs(refv), p))
    finally:
        rmp.prec = old
    verdict = refmodel.decide_error(err, 2.0 ** tol_exp)
    rec.case(ident, True, cls)
    rec.sample(case)
    rec.maximum('err_units/' + fname, err, case)
    if verdict == 'violated':
        sev = math.log2(err) - tol_exp if err < float('inf') else 1e9
        rec.violation(key, '%s relative error %.3g * 2^-p exceeds 2^(%d-p) at prec %d [reference: %s]'
                      % (fname, err, tol_exp, p, info), case, observed=str(val)[:80], expected=str(refv)[:80],
                      severity=round(sev, 2))
    elif verdict == 'undecided':
        rec.undecided('guard-band', case)
    return verdict


# ---- scheduling ---------------------------------------------------------------------------------------

def all_cells(table):
    return [(f, rg) for f in sorted(table) for rg in table[f]]


def n_for(rg, tier, scale=1.0):
    if rg.n is not None:
        return rg.n[0 if tier == 'quick' else 1]
    return max(1, int(N_PER_CELL[rg.cost][0 if tier == 'quick' else 1] * scale))


def assign(table, tier, nshards, scale=1.0):
    """deterministic cost-balanced distribution of the cells over the shards (longest-processing-time greedy)"""
    cells = all_cells(table)
    est = [(n_for(rg, tier, scale) * EST_COST[rg.cost], i) for i, (f, rg) in enumerate(cells)]
    est.sort(key=lambda t: (-t[0], t[1]))
    load = [0.0] * nshards
    out = [[] for _ in range(nshards)]
    for c, i in est:
        j = min(range(nshards), key=lambda k: (load[k], k))
        load[j] += c
        out[j].append(i)
    return [[cells[i] for i in sorted(ix)] for ix in out]


def precs_of(rg, tier):
    precs = rg.precs or {1: PRECS_LIGHT, 2: PRECS_LIGHT, 3: PRECS_HEAVY, 4: PRECS_XHEAVY}[rg.cost]
    if tier == 'quick':
        precs = [q for q in precs if q <= 400] or precs[:1]
    return precs


def clear_tree_caches():
    """cold-start the cheap value caches of the tree (zeta at integers, Stieltjes constants) so that the
    low-precision code path is exercised and not a rounded high-precision cache entry"""
    try:
        from mpmath.libmp import gammazeta as gz
        gz.zeta_int_cache.clear()
    except Exception:
        pass
    try:
        import mpmath
        if hasattr(mpmath.mp, 'stieltjes_cache'):
            mpmath.mp.stieltjes_cache.clear()
    except Exception:
        pass


def gen_specs(rg, r, bits, p):
    if rg.pgen:
        return rg.gen(r, bits, p)
    return rg.gen(r, bits)


def pick_bits(r, p, rg):
    if r.random() < 0.8:
        b = min(r.choice((53, 53, 20, 100)), max(p, 4))
    else:
        b = r.choice([2 * p, p + 7])
    if rg.maxbits:
        b = min(b, rg.maxbits)
    return max(2, b)


def run(prop, table, shard, rec, tol_exp=8, tmax=20.0):
    import mpmath
    tree_mp = mpmath.mp
    tier = shard.get('tier', 'quick')
    nsh = shard.get('nshards', 16)
    scale = shard.get('scale', 1.0)
    mine = assign(table, tier, nsh, scale)[shard['shard'] % nsh]
    r = G.rng(prop, shard['seed'], shard['shard'])
    t_end = time.process_time() + shard.get('budget_s', 1e9)
    counts = collections.Counter()
    cellcpu = collections.Counter()
    todo = []
    for fname, rg in mine:
        if not hasattr(tree_mp, fname) and not rg.fn:
            rec.note('absent', fname)
            continue
        todo.append([fname, rg, n_for(rg, tier, scale), 0])
    rnd = 0
    stopped = False
    while todo and not stopped:
        nxt = []
        for item in todo:
            fname, rg, n, done = item
            if time.process_time() > t_end:
                stopped = True
                break
            precs = precs_of(rg, tier)
            p = precs[(rnd + r.randrange(len(precs))) % len(precs)]
            bits = pick_bits(r, p, rg)
            if r.random() < 0.5:
                clear_tree_caches()
            try:
                specs = gen_specs(rg, r, bits, p)
            except Exception as e:
                rec.note('generator-error', '%s/%s: %r' % (fname, rg.label, e))
                item[3] += 1
                if item[3] < n:
                    nxt.append(item)
                continue
            tc = time.process_time()
            v = evaluate(tree_mp, prop, fname, rg, specs, p, rec, tol_exp, tmax)
            cellcpu['%s/%s' % (fname, rg.label)] += time.process_time() - tc
            counts[v] += 1
            item[3] += 1
            if item[3] < n:
                nxt.append(item)
        todo = nxt
        rnd += 1
    if stopped:
        rec.event('shard time budget reached (remaining evaluations skipped)', 1)
        rec.note('budget-stop', {'shard': shard['shard'], 'cells_unfinished': ['%s/%s' % (f, g.label) for f, g, n, d in todo][:20]})
    for k, v in counts.items():
        rec.event('verdict:' + k, v)
    rec.event('reference consensus evaluations', sum(counts.values()))
    rec.event('worker cpu seconds', int(time.process_time()))
    import os
    if os.environ.get('VERIF_J_PROFILE'):     # development aid: per-cell CPU of this shard as a JSON file
        import json
        with open('%s-%s-%d.json' % (os.environ['VERIF_J_PROFILE'], prop, shard['shard']), 'w') as f:
            json.dump(dict(cellcpu), f)
    if cellcpu:
        k = max(cellcpu, key=cellcpu.get)
        rec.maximum('cell_cpu_seconds', cellcpu[k], {'cell': k})
    rec.maximum('shard_cpu_seconds', time.process_time(), {'shard': shard['shard']})


def required_cells(table, min_frac=0.9):
    """every function observed; at least min_frac of the cells observed at least once (cells whose every case
    raised are counted through the 'raised' class)"""
    def req(agg, tier):
        miss = []
        classes = agg['classes']
        seen_f = set(k.split('/')[0] for k in classes)
        for f in table:
            if f not in seen_f:
                miss.append('function %s never observed' % f)
        cells = ['%s/%s' % (f, rg.label) for f, rg in all_cells(table)]
        unseen = [c for c in cells if c not in classes]
        if len(unseen) > (1 - min_frac) * len(cells):
            miss.append('%d of %d regime cells never produced a decided or undecided case: %s'
                        % (len(unseen), len(cells), ', '.join(unseen[:8])))
        return miss[:12]
    return req


def replay(prop, table, case, rec, tol_exp=8):
    import mpmath
    c = case['case']
    fname = c['function']
    regs = [rg for rg in table.get(fname, []) if rg.label == c['regime']]
    if not regs:
        rec.undecided('replay: regime not found')
        return
    evaluate(mpmath.mp, prop, fname, regs[0], _unfmt(c['args']), c['prec'], rec, tol_exp, tmax=120.0)


# ---- development aid: per-cell statistics (not used by check.py) ---------------------------------------------

class ScoutRec(object):
    def __init__(self):
        self.cells = collections.defaultdict(lambda: collections.Counter())
        self.worst = {}
        self.items = collections.defaultdict(list)
        self.cur = None

    def case(self, ident, nontrivial=True, cls=None):
        self.cur = cls

    def cls(self, name, n=1):
        self.cells[self.cur or '?']['cls:' + name] += n

    def event(self, *a):
        pass

    anchor = event

    def sample(self, o):
        pass

    def maximum(self, name, value, witness=None):
        k = '%s/%s' % (witness['function'], witness['regime'])
        if value > self.worst.get(k, (-1,))[0]:
            self.worst[k] = (value, witness)

    def note(self, name, obj, cap=20):
        if name == 'raised':
            k = '%s/%s' % (obj['case']['function'], obj['case']['regime'])
            self.cells[k]['raised'] += 1
            if len(self.items[k]) < 3:
                self.items[k].append(('raised', obj['exc'], obj['case']['args'], obj['case']['prec']))

    def violation(self, key, what, case, observed=None, expected=None, severity=None):
        k = '%s/%s' % (case['function'], case['regime'])
        self.cells[k]['VIOL'] += 1
        self.items[k].append(('VIOL', key, severity, case['args'], case['prec'], observed, expected))

    def undecided(self, reason, case=None):
        k = '%s/%s' % (case['function'], case['regime']) if case else '?'
        self.cells[k]['undec:' + reason] += 1
        if case and len(self.items[k]) < 6:
            self.items[k].append(('undec', reason, case['args'], case['prec']))


def scout(prop, table, pattern='*', n=10, seed=0, tier='quick', verbose=True, precs=None):
    import fnmatch, mpmath
    rec = ScoutRec()
    r = G.rng(prop, seed, 999)
    out = []
    for fname, rg in all_cells(table):
        name = '%s/%s' % (fname, rg.label)
        if not fnmatch.fnmatch(name, pattern):
            continue
        t0 = time.process_time()
        vc = collections.Counter()
        pl = precs or precs_of(rg, tier)
        for i in range(n):
            p = pl[(i + r.randrange(len(pl))) % len(pl)]
            bits = pick_bits(r, p, rg)
            if r.random() < 0.5:
                clear_tree_caches()
            specs = gen_specs(rg, r, bits, p)
            v = evaluate(mpmath.mp, prop, fname, rg, specs, p, rec)
            vc[v] += 1
        dt = (time.process_time() - t0) / max(n, 1)
        w = rec.worst.get(name, (0, None))[0]
        line = '%-42s %5.2fs/ev  max=%-10.3g %s %s' % (name, dt, w, dict(vc), dict(rec.cells.get(name, {})))
        print(line, flush=True)
        if verbose:
            for it in rec.items.get(name, [])[:4]:
                print('      ', str(it)[:400])
        out.append((name, dt, w, dict(vc)))
    return out
