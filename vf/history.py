"""history -- history recorder and fresh-process prober (C17, C33; usable by C34/C38).

A *history* is a list of JSON-able steps executed one after another in the current (worker) process by a
step function supplied by the property module.  A *probe* is a JSON-able description of one evaluation whose
raw result is compared between processes.  A *probe set* is a list of probes.

The module offers

    enc(value)                       exact, JSON-able, canonical encoding of results (raw tuples, hex mantissas)
    run_steps(fn, steps)             execute steps in this process, exceptions (also injected faults) -> ['EXC', name]
    aborted_call(codes, k, fn)       run fn() with an instrument.Failpoint armed at the k-th PY_START among `codes`
    fresh_isolated(evaluator, sets)  every probe set in its *own* new interpreter (nothing else ever ran there)
    fresh_batched(evaluator, sets)   all probe sets in one new interpreter -- done twice, in two different orders;
                                     the per-probe disagreements between the two orders are returned as well, so
                                     the caller can show that the order inside the fresh process does not matter
    fresh_history(runner, steps, evaluator, probes)   history + probes in a new interpreter (clean-state history)

Child interpreters are started with ``subprocess.run([PY, '-c', BOOT], input=job, timeout=...)`` (never
multiprocessing); PYTHONPATH makes ``mpmath`` the tree at VERIF_REPO and ``vf`` importable.  ``evaluator`` and
``runner`` are given as 'package.module:function' names; evaluator(probe) -> value, runner(step) -> value.
"""
import os, sys, json, time, subprocess, importlib

ROOT = os.path.dirname(os.path.dirname(os.path.abspath(__file__)))
PY = os.environ.get('VERIF_PY', '/venv/bin/python')

BOOT = r'''
import os, sys
repo = os.environ.get('VERIF_REPO', '/repo')
sys.path[:] = [p for p in sys.path if os.path.abspath(p or '.') != repo]
sys.path.insert(0, repo)
try:
    sys.set_int_max_str_digits(0)
except AttributeError:
    pass
import mpmath
assert os.path.abspath(mpmath.__file__).startswith(os.path.abspath(repo) + os.sep), mpmath.__file__
from vf import history
history._child_main()
'''


# ---------------------------------------------------------------------------------------
# encoding of results
# ---------------------------------------------------------------------------------------

def _hx(n):
    n = int(n)
    return '%x' % n if n >= 0 else '-%x' % -n


def enc_raw(t):
    s, m, e, b = t
    return ['f', int(s), _hx(m), int(e), int(b)]


def dec_raw(v):
    assert v[0] == 'f'
    return (v[1], int(v[2], 16), v[3], v[4])


def enc(v):
    """canonical exact JSON encoding of a result (numbers of any context, containers, matrices)"""
    if v is None or isinstance(v, (bool, str)):
        return v
    if isinstance(v, int):
        return ['z', _hx(v)]
    if isinstance(v, float):
        return ['d', v.hex()]
    if isinstance(v, complex):
        return ['dc', v.real.hex(), v.imag.hex()]
    if hasattr(v, '_mpf_'):
        return enc_raw(v._mpf_)
    if hasattr(v, '_mpc_'):
        re, im = v._mpc_
        return ['c', enc_raw(re), enc_raw(im)]
    if hasattr(v, '_mpi_'):
        a, b = v._mpi_
        return ['i', enc_raw(a), enc_raw(b)]
    if hasattr(v, '_mpci_'):
        (a, b), (c, d) = v._mpci_
        return ['ci', enc_raw(a), enc_raw(b), enc_raw(c), enc_raw(d)]
    if hasattr(v, 'rows') and hasattr(v, 'cols') and hasattr(v, 'tolist'):
        return ['m', int(v.rows), int(v.cols), [enc(x) for row in v.tolist() for x in row]]
    if isinstance(v, (list, tuple)):
        return ['l'] + [enc(x) for x in v]
    if isinstance(v, dict):
        return ['o'] + [[str(k), enc(x)] for k, x in sorted(v.items(), key=lambda kv: str(kv[0]))]
    if hasattr(v, '_mpq_'):
        p, q = v._mpq_
        return ['q', _hx(p), _hx(q)]
    return ['r', repr(v)]


def exc_token(e):
    return ['EXC', type(e).__name__]


def is_exc(v):
    return isinstance(v, list) and len(v) == 2 and v[0] == 'EXC'


def safe(fn, arg):
    """evaluate fn(arg) -> encoded value; every exception (incl. injected faults) becomes ['EXC', type name]"""
    try:
        return enc(fn(arg))
    except (KeyboardInterrupt, SystemExit, MemoryError):
        raise
    except BaseException as e:
        return exc_token(e)


def run_steps(fn, steps):
    """execute a history in this process; returns the encoded result of every step"""
    return [safe(fn, s) for s in steps]


# ---------------------------------------------------------------------------------------
# aborted calls
# ---------------------------------------------------------------------------------------

def aborted_call(codes, k, fn, exc=None):
    """Run fn() while an instrument.Failpoint raises at the k-th PY_START event among the code objects `codes`.
    Returns (status, info): ('aborted', function name where it fired) | ('completed', events counted)
    | ('raised', exception type name) when fn raised something else by itself."""
    from .instrument import Failpoint, InjectedFault
    fp = Failpoint(codes).install()
    try:
        fp.arm(k, exc if exc is not None else InjectedFault('failpoint %d' % k))
        try:
            fn()
        except InjectedFault:
            return 'aborted', fp.fired_in
        except (KeyboardInterrupt, SystemExit, MemoryError):
            raise
        except BaseException as e:
            if fp.fired_in is not None:
                return 'aborted', fp.fired_in        # fault translated by the library into another exception
            return 'raised', type(e).__name__
        finally:
            n = fp.disarm()
        return 'completed', n
    finally:
        fp.uninstall()


def module_codes(modnames, exclude=('prec_to_dps', 'dps_to_prec')):
    """code objects of all module-level functions and of methods of module-level classes of the given modules"""
    import types
    out = set()
    for mn in modnames:
        try:
            mod = importlib.import_module(mn)
        except Exception:
            continue
        for k, v in vars(mod).items():
            if isinstance(v, types.FunctionType) and v.__module__ == mod.__name__ and k not in exclude:
                out.add(v.__code__)
                for c in v.__code__.co_consts:
                    if isinstance(c, types.CodeType):
                        out.add(c)
            elif isinstance(v, type) and v.__module__ == mod.__name__:
                for kk, vv in vars(v).items():
                    f = getattr(vv, '__func__', vv)
                    if isinstance(f, types.FunctionType) and kk not in exclude:
                        out.add(f.__code__)
    return out


# ---------------------------------------------------------------------------------------
# fresh interpreters
# ---------------------------------------------------------------------------------------

def _env():
    env = dict(os.environ)
    pp = env.get('PYTHONPATH')
    parts = [ROOT] + ([p for p in pp.split(os.pathsep) if p and p != ROOT] if pp else [])
    env['PYTHONPATH'] = os.pathsep.join(parts)
    env['PYTHONHASHSEED'] = '0'
    env['PYTHONDONTWRITEBYTECODE'] = '1'
    env.setdefault('VERIF_REPO', '/repo')
    env.setdefault('MPMATH_NOGMPY', '1')
    return env


def _resolve(name):
    modname, fn = name.split(':')
    return getattr(importlib.import_module(modname), fn)


def _child_main():
    job = json.loads(sys.stdin.read())
    t0 = time.time()
    out = {'pid': os.getpid(), 'results': {}}
    import mpmath
    out['mpmath_file'] = mpmath.__file__
    if job.get('setup'):
        _resolve(job['setup'])(job.get('setup_arg'))
    if job.get('history') is not None:
        runner = _resolve(job['runner'])
        out['history_results'] = run_steps(runner, job['history'])
    ev = _resolve(job['evaluator'])
    sets = job['sets']
    for idx in job['order']:
        out['results'][str(idx)] = [safe(ev, p) for p in sets[idx]]
    out['elapsed'] = time.time() - t0
    sys.stdout.write('\n@@VF-RESULT@@' + json.dumps(out))
    sys.stdout.flush()


class FreshError(Exception):
    pass


def spawn(job, timeout=120):
    """run one job in a new interpreter; returns the child's result dict or raises FreshError(kind)"""
    try:
        p = subprocess.run([PY, '-c', BOOT], input=json.dumps(job).encode(), env=_env(), cwd=ROOT,
                           stdout=subprocess.PIPE, stderr=subprocess.PIPE, timeout=timeout)
    except subprocess.TimeoutExpired:
        raise FreshError('timeout')
    txt = p.stdout.decode(errors='replace')
    k = txt.rfind('@@VF-RESULT@@')
    if p.returncode != 0 or k < 0:
        raise FreshError('crash: ' + p.stderr.decode(errors='replace')[-600:])
    return json.loads(txt[k + len('@@VF-RESULT@@'):])


def fresh_isolated(evaluator, probe_sets, timeout=120, setup=None, setup_arg=None):
    """each probe set evaluated in its own new interpreter.  Returns a list (one entry per set) of result lists;
    an entry is ('ERR', kind) if that child failed."""
    out = []
    for ps in probe_sets:
        job = {'evaluator': evaluator, 'sets': [ps], 'order': [0], 'setup': setup, 'setup_arg': setup_arg}
        try:
            r = spawn(job, timeout)
            out.append(r['results']['0'])
        except FreshError as e:
            out.append(('ERR', str(e)))
    return out


def fresh_batched(evaluator, probe_sets, timeout=300, orders=None, setup=None, setup_arg=None):
    """all probe sets in ONE new interpreter, repeated for every order in `orders` (default: forward and
    reverse; an order is a permutation of range(len(probe_sets))).  Returns (per_order, disagreements):
    per_order = [list of result lists indexed like probe_sets, ...];  disagreements = [(set, probe, r_a, r_b)]
    for raw results that are not identical between the first order and any other order."""
    n = len(probe_sets)
    if orders is None:
        orders = [list(range(n)), list(range(n - 1, -1, -1))]
    per_order = []
    for od in orders:
        job = {'evaluator': evaluator, 'sets': probe_sets, 'order': list(od), 'setup': setup, 'setup_arg': setup_arg}
        try:
            r = spawn(job, timeout)
            per_order.append([r['results'].get(str(i)) for i in range(n)])
        except FreshError as e:
            per_order.append(('ERR', str(e)))
    dis = []
    base = per_order[0]
    if not (isinstance(base, tuple) and base and base[0] == 'ERR'):
        for other in per_order[1:]:
            if isinstance(other, tuple):
                continue
            for i in range(n):
                a, b = base[i], other[i]
                if a is None or b is None:
                    continue
                for j, (x, y) in enumerate(zip(a, b)):
                    if x != y:
                        dis.append((i, j, x, y))
    return per_order, dis


def fresh_history(runner, steps, evaluator, probes, timeout=300, setup=None, setup_arg=None):
    """history followed by the probes, both in a new interpreter.  Returns (history_results, probe_results)
    or ('ERR', kind)."""
    job = {'evaluator': evaluator, 'runner': runner, 'history': steps, 'sets': [probes], 'order': [0],
           'setup': setup, 'setup_arg': setup_arg}
    try:
        r = spawn(job, timeout)
    except FreshError as e:
        return ('ERR', str(e))
    return r['history_results'], r['results']['0']


# ---------------------------------------------------------------------------------------
# comparison helpers on encoded values
# ---------------------------------------------------------------------------------------

def leaves(v):
    """flatten an encoded value into its raw real leaves [('f', s, m, e, b) ...] plus a shape signature"""
    out, shape = [], []

    def walk(x):
        if isinstance(x, list) and x:
            t = x[0]
            if t == 'f':
                out.append(dec_raw(x)); shape.append('f'); return
            if t in ('c', 'i', 'ci'):
                shape.append(t)
                for y in x[1:]:
                    walk(y)
                return
            if t == 'm':
                shape.append(('m', x[1], x[2]))
                for y in x[3]:
                    walk(y)
                return
            if t == 'l':
                shape.append(('l', len(x) - 1))
                for y in x[1:]:
                    walk(y)
                return
            if t == 'o':
                shape.append(('o', tuple(k for k, _ in x[1:])))
                for _, y in x[1:]:
                    walk(y)
                return
        shape.append(json.dumps(x, sort_keys=True))
    walk(v)
    return out, shape


def raw_to_fraction(t):
    from fractions import Fraction
    s, m, e, b = t
    if not m:
        if e == 0:
            return Fraction(0)
        return None
    v = Fraction(m << e) if e >= 0 else Fraction(m, 1 << -e)
    return -v if s else v


def close(a, b, p, slack_bits=8, scale='leaf'):
    """encoded values a, b equal up to rounding level:  same shape, and for every real leaf
    |a - b| <= 2^(slack_bits - p) * S  with S = |b leaf| (scale='leaf') or the largest |leaf| of b
    (scale='max', for matrices / vectors); exact rational arithmetic; specials must be identical.
    Returns (ok, worst) with worst = largest |a-b|/S in units of 2^-p (float; inf when S == 0 or shapes differ)."""
    la, sa = leaves(a)
    lb, sb = leaves(b)
    if sa != sb:
        return False, float('inf')
    S = None
    if scale == 'max':
        vals = [raw_to_fraction(y) for y in lb]
        vals = [abs(v) for v in vals if v is not None]
        S = max(vals) if vals else None
    worst = 0.0
    ok = True
    for x, y in zip(la, lb):
        if x == y:
            continue
        fx, fy = raw_to_fraction(x), raw_to_fraction(y)
        if fx is None or fy is None:
            return False, float('inf')
        s = abs(fy) if scale == 'leaf' else S
        if not s:
            return False, float('inf')
        d = abs(fx - fy) / s
        try:
            u = float(d * (1 << p))
        except OverflowError:
            u = float('inf')
        worst = max(worst, u)
        if d * (1 << p) > (1 << slack_bits):
            ok = False
    return ok, worst
