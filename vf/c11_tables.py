"""Tables of the C11 check (builderE): callback-taking entry points, numeric entry points that are not in
vf/catalog.py, arguments that make functions fail by themselves, manager plans."""
import itertools

# ---------------------------------------------------------------------------------------
# callback-taking entry points.  label -> (public name, runner(ctx, cb))
# cb(f) wraps a user function; cb.it(iterable) wraps an iterable; all wrapped objects share one call counter.
# ---------------------------------------------------------------------------------------
CALLBACKS = {}


def _cb(label, name):
    def deco(fn):
        CALLBACKS[label] = (name, fn)
        return fn
    return deco


def _gauss(c):
    return lambda x: c.exp(-x * x)


@_cb('quad/1d', 'quad')
def _(c, cb): return c.quad(cb(_gauss(c)), [0, 1])
@_cb('quad/inf', 'quad')
def _(c, cb): return c.quad(cb(_gauss(c)), [0, c.inf])
@_cb('quad/points', 'quad')
def _(c, cb): return c.quad(cb(lambda x: abs(c.sin(x))), [0, 1, 2, 3])
@_cb('quad/2d', 'quad')
def _(c, cb): return c.quad(cb(lambda x, y: x * y + 1), [0, 1], [0, 1], maxdegree=3)
@_cb('quad/3d', 'quad')
def _(c, cb): return c.quad(cb(lambda x, y, z: x + y * z), [0, 1], [0, 1], [0, 1], maxdegree=2)
@_cb('quad/error', 'quad')
def _(c, cb): return c.quad(cb(_gauss(c)), [0, 1], error=True)
@_cb('quad/gl', 'quad')
def _(c, cb): return c.quad(cb(_gauss(c)), [0, 1], method='gauss-legendre')
@_cb('quad/maxdegree', 'quad')
def _(c, cb): return c.quad(cb(lambda x: c.sqrt(x)), [0, 1], maxdegree=3)
@_cb('quadgl', 'quadgl')
def _(c, cb): return c.quadgl(cb(_gauss(c)), [0, 1])
@_cb('quadts', 'quadts')
def _(c, cb): return c.quadts(cb(_gauss(c)), [0, 1])
@_cb('quadosc/omega', 'quadosc')
def _(c, cb): return c.quadosc(cb(lambda x: c.sin(x) / (1 + x * x)), [0, c.inf], omega=1)
@_cb('quadosc/period', 'quadosc')
def _(c, cb): return c.quadosc(cb(lambda x: c.cos(x) / (1 + x * x)), [0, c.inf], period=2 * c.pi)
@_cb('quadosc/zeros', 'quadosc')
def _(c, cb): return c.quadosc(cb(lambda x: c.sin(x) / (1 + x * x)), [0, c.inf], zeros=cb(lambda n: c.pi * n))
@_cb('nsum/default', 'nsum')
def _(c, cb): return c.nsum(cb(lambda k: 1 / k ** 2), [1, c.inf])
@_cb('nsum/richardson', 'nsum')
def _(c, cb): return c.nsum(cb(lambda k: 1 / k ** 2), [1, c.inf], method='r')
@_cb('nsum/shanks', 'nsum')
def _(c, cb): return c.nsum(cb(lambda k: (-1) ** k / k), [1, c.inf], method='s')
@_cb('nsum/levin', 'nsum')
def _(c, cb): return c.nsum(cb(lambda k: 1 / k ** 2), [1, c.inf], method='l')
@_cb('nsum/alternating', 'nsum')
def _(c, cb): return c.nsum(cb(lambda k: (-1) ** k / k), [1, c.inf], method='a')
@_cb('nsum/euler-maclaurin', 'nsum')
def _(c, cb): return c.nsum(cb(lambda k: 1 / k ** 2), [1, c.inf], method='e')
@_cb('nsum/direct', 'nsum')
def _(c, cb): return c.nsum(cb(lambda k: c.mpf(2) ** (-k)), [0, c.inf], method='d')
@_cb('nsum/finite', 'nsum')
def _(c, cb): return c.nsum(cb(lambda k: 1 / k), [1, 12])
@_cb('nsum/two-sided', 'nsum')
def _(c, cb): return c.nsum(cb(lambda k: 1 / (1 + k * k)), [-c.inf, c.inf])
@_cb('nsum/2d', 'nsum')
def _(c, cb): return c.nsum(cb(lambda x, y: c.mpf(3) ** (-x - y)), [0, c.inf], [0, c.inf])
@_cb('nsum/workprec', 'nsum')
def _(c, cb): return c.nsum(cb(lambda k: 1 / k ** 2), [1, c.inf], workprec=200)
@_cb('nprod', 'nprod')
def _(c, cb): return c.nprod(cb(lambda k: 1 - 1 / k ** 2), [2, c.inf])
@_cb('nprod/nsum', 'nprod')
def _(c, cb): return c.nprod(cb(lambda k: 1 - 1 / k ** 2), [2, c.inf], nsum=True)
@_cb('limit/0', 'limit')
def _(c, cb): return c.limit(cb(lambda x: c.sin(x) / x), 0)
@_cb('limit/inf', 'limit')
def _(c, cb): return c.limit(cb(lambda n: (1 + 1 / n) ** n), c.inf)
@_cb('limit/exp', 'limit')
def _(c, cb): return c.limit(cb(lambda n: c.mpf(2) ** (-n) + 1), c.inf, exp=True)
@_cb('diff/1', 'diff')
def _(c, cb): return c.diff(cb(c.exp), 1)
@_cb('diff/3', 'diff')
def _(c, cb): return c.diff(cb(c.sin), 1, 3)
@_cb('diff/quad', 'diff')
def _(c, cb): return c.diff(cb(c.exp), 1, 2, method='quad')
@_cb('diff/partial', 'diff')
def _(c, cb): return c.diff(cb(lambda x, y: x * c.exp(y)), (1, 2), (1, 1))
@_cb('diff/singular', 'diff')
def _(c, cb): return c.diff(cb(lambda x: c.sin(x) / x if x else c.one), 0, 1, singular=True)
@_cb('diff/direction', 'diff')
def _(c, cb): return c.diff(cb(c.sqrt), 1, 1, direction=1)
@_cb('diff/h', 'diff')
def _(c, cb): return c.diff(cb(c.exp), 1, 1, h=c.mpf('0.001'))
@_cb('diffs', 'diffs')
def _(c, cb): return list(c.diffs(cb(c.exp), 1, 4))
@_cb('diffs/singular', 'diffs')
def _(c, cb): return list(c.diffs(cb(c.exp), 1, 3, singular=True))
@_cb('diffun', 'diffun')
def _(c, cb): return c.diffun(cb(c.sin), 2)(1)
@_cb('taylor', 'taylor')
def _(c, cb): return c.taylor(cb(c.exp), 0, 5)
@_cb('taylor/singular', 'taylor')
def _(c, cb): return c.taylor(cb(lambda x: c.sin(x) / x if x else c.one), 0, 3, singular=True)
@_cb('differint', 'differint')
def _(c, cb): return c.differint(cb(lambda x: x * x), 1, c.mpf(0.5))
@_cb('findroot/secant', 'findroot')
def _(c, cb): return c.findroot(cb(lambda x: x * x - 2), 1, solver='secant')
@_cb('findroot/mnewton', 'findroot')
def _(c, cb): return c.findroot(cb(lambda x: x * x - 2), 1, solver='mnewton')
@_cb('findroot/mnewton-df', 'findroot')
def _(c, cb): return c.findroot(cb(lambda x: x * x - 2), 1, solver='mnewton', df=cb(lambda x: 2 * x), d2f=cb(lambda x: 2))
@_cb('findroot/halley', 'findroot')
def _(c, cb): return c.findroot(cb(lambda x: x * x - 2), 1, solver='halley')
@_cb('findroot/halley-df', 'findroot')
def _(c, cb): return c.findroot(cb(lambda x: x * x - 2), 1, solver='halley', df=cb(lambda x: 2 * x), d2f=cb(lambda x: 2))
@_cb('findroot/muller', 'findroot')
def _(c, cb): return c.findroot(cb(lambda x: x * x - 2), 1, solver='muller')
@_cb('findroot/muller-complex', 'findroot')
def _(c, cb): return c.findroot(cb(lambda x: x * x + 2), 1, solver='muller')
@_cb('findroot/illinois', 'findroot')
def _(c, cb): return c.findroot(cb(lambda x: x * x - 2), (1, 2), solver='illinois')
@_cb('findroot/pegasus', 'findroot')
def _(c, cb): return c.findroot(cb(lambda x: x * x - 2), (1, 2), solver='pegasus')
@_cb('findroot/anderson', 'findroot')
def _(c, cb): return c.findroot(cb(lambda x: x * x - 2), (1, 2), solver='anderson')
@_cb('findroot/ridder', 'findroot')
def _(c, cb): return c.findroot(cb(lambda x: x * x - 2), (1, 2), solver='ridder')
@_cb('findroot/bisect', 'findroot')
def _(c, cb): return c.findroot(cb(lambda x: x * x - 2), (1, 2), solver='bisect')
@_cb('findroot/anewton', 'findroot')
def _(c, cb): return c.findroot(cb(lambda x: x * x - 2), 1, solver='anewton')
@_cb('findroot/newton', 'findroot')
def _(c, cb): return c.findroot(cb(lambda x: x * x - 2), 1, solver='newton', df=cb(lambda x: 2 * x))
@_cb('findroot/mdnewton', 'findroot')
def _(c, cb): return c.findroot(cb(lambda x, y: [x * x + y * y - 1, x - y]), (1, 1), solver='mdnewton')
@_cb('findroot/mdnewton-J', 'findroot')
def _(c, cb):
    return c.findroot(cb(lambda x, y: [x * x + y * y - 1, x - y]), (1, 1),
                      J=cb(lambda x, y: c.matrix([[2 * x, 2 * y], [1, -1]])))
@_cb('findroot/list', 'findroot')
def _(c, cb): return c.findroot([cb(lambda x, y: x * x + y * y - 1), cb(lambda x, y: x - y)], (1, 1))
@_cb('findroot/no-root', 'findroot')
def _(c, cb): return c.findroot(cb(lambda x: x * x + 1), 1, maxsteps=8)
@_cb('findroot/norm', 'findroot')
def _(c, cb):
    return c.findroot(cb(lambda x, y: [x * x + y * y - 1, x - y]), (1, 1), norm=cb(lambda v: c.norm(v, 2)))
@_cb('multiplicity', 'multiplicity')
def _(c, cb): return c.multiplicity(cb(lambda x: (x - 1) ** 3), 1)
@_cb('jacobian', 'jacobian')
def _(c, cb): return c.jacobian(cb(lambda x, y: [x * y, x + c.exp(y)]), (1, 2))
@_cb('odefun/construct', 'odefun')
def _(c, cb): return c.odefun(cb(lambda x, y: y), 0, 1)
@_cb('odefun/eval', 'odefun')
def _(c, cb):
    f = c.odefun(cb(lambda x, y: y), 0, 1)
    return [f(1), f(c.mpf(0.5)), f(2)]
@_cb('odefun/system', 'odefun')
def _(c, cb):
    f = c.odefun(cb(lambda x, y: [-y[1], y[0]]), 0, [1, 0])
    return f(1)
@_cb('odefun/degree', 'odefun')
def _(c, cb): return c.odefun(cb(lambda x, y: x * y), 0, 1, degree=6, tol=c.mpf('0.001'))(1)
@_cb('invertlaplace/talbot', 'invertlaplace')
def _(c, cb): return c.invertlaplace(cb(lambda p: 1 / (p + 1)), 1, method='talbot')
@_cb('invertlaplace/stehfest', 'invertlaplace')
def _(c, cb): return c.invertlaplace(cb(lambda p: 1 / (p + 1)), 1, method='stehfest')
@_cb('invertlaplace/dehoog', 'invertlaplace')
def _(c, cb): return c.invertlaplace(cb(lambda p: 1 / (p + 1)), 1, method='dehoog')
@_cb('invlaptalbot', 'invlaptalbot')
def _(c, cb): return c.invlaptalbot(cb(lambda p: 1 / (p + 1) ** 2), 2)
@_cb('invlapstehfest', 'invlapstehfest')
def _(c, cb): return c.invlapstehfest(cb(lambda p: 1 / (p + 1) ** 2), 2)
@_cb('invlapdehoog', 'invlapdehoog')
def _(c, cb): return c.invlapdehoog(cb(lambda p: 1 / (p + 1) ** 2), 2)
@_cb('chebyfit', 'chebyfit')
def _(c, cb): return c.chebyfit(cb(c.cos), [1, 2], 5)
@_cb('chebyfit/error', 'chebyfit')
def _(c, cb): return c.chebyfit(cb(c.cos), [1, 2], 4, error=True)
@_cb('fourier', 'fourier')
def _(c, cb): return c.fourier(cb(lambda x: x), [-c.pi, c.pi], 3)
@_cb('sumem', 'sumem')
def _(c, cb): return c.sumem(cb(lambda k: 1 / k ** 2), [32, c.inf])
@_cb('sumem/error', 'sumem')
def _(c, cb): return c.sumem(cb(lambda k: 1 / k ** 2), [32, c.inf], error=True)
@_cb('sumem/finite', 'sumem')
def _(c, cb): return c.sumem(cb(lambda k: 1 / k ** 2), [10, 20])
@_cb('sumap', 'sumap')
def _(c, cb): return c.sumap(cb(lambda x: 1 / (1 + x) ** 2), [0, c.inf])
@_cb('autoprec', 'autoprec')
def _(c, cb): return c.autoprec(cb(lambda t: c.exp(t) - 1))(c.mpf('1e-10'))
@_cb('autoprec/catch', 'autoprec')
def _(c, cb): return c.autoprec(cb(lambda t: 1 / (c.exp(t) - 1)), catch=ZeroDivisionError)(c.mpf('1e-30'))
@_cb('autoprec/maxprec', 'autoprec')
def _(c, cb): return c.autoprec(cb(lambda t: c.rand()), maxprec=300)(1)
@_cb('memoize', 'memoize')
def _(c, cb):
    g = c.memoize(cb(c.sin))
    return [g(1), g(1), g(2), g(1, prec=10) if False else g(3)]
@_cb('maxcalls', 'maxcalls')
def _(c, cb):
    g = c.maxcalls(cb(c.sin), 5)
    return [g(i) for i in range(7)]
@_cb('matrix.apply', 'matrix')
def _(c, cb): return c.matrix([[1, 2], [3, 4]]).apply(cb(c.exp))
@_cb('sum_accurately', 'sum_accurately')
def _(c, cb): return c.sum_accurately(cb(lambda: cb.it([c.mpf(1), c.mpf('1e-30'), c.mpf(-1)])))
@_cb('mul_accurately', 'mul_accurately')
def _(c, cb): return c.mul_accurately(cb(lambda: cb.it([c.mpf(3), c.mpf('1e-30') + 1, 1 / c.mpf(3)])))
@_cb('hypercomb', 'hypercomb')
def _(c, cb): return c.hypercomb(cb(lambda a: [([2], [a], [], [], [a], [1.5], 0.25)]), [0.5])
@_cb('hypercomb/degenerate', 'hypercomb')
def _(c, cb):
    return c.hypercomb(cb(lambda a: [([], [], [a], [a - 1], [], [], 0)]), [0])
@_cb('fsum/generator', 'fsum')
def _(c, cb): return c.fsum(cb.it([c.mpf(1), 2, 3.5, c.mpc(1, 2)]))
@_cb('fprod/generator', 'fprod')
def _(c, cb): return c.fprod(cb.it([c.mpf(1), 2, 3.5, c.mpc(1, 2)]))
@_cb('fdot/generator', 'fdot')
def _(c, cb): return c.fdot(cb.it([(c.mpf(1), 2), (3.5, c.mpc(1, 2)), (2, 3)]))
@_cb('polyroots/none', 'polyroots')
def _(c, cb): return c.polyroots(list(cb.it([1, -3, 2])))
@_cb('quadsubdiv', 'quadsubdiv')
def _(c, cb): return c.quadsubdiv(cb(lambda x: c.sqrt(x)), [0, 1])
@_cb('workprec-decorator', 'workprec')
def _(c, cb): return c.workprec(c.prec + 30)(cb(c.exp))(1)
@_cb('extradps-decorator', 'extradps')
def _(c, cb): return c.extradps(7, normalize_output=True)(cb(lambda x: (c.exp(x), c.sin(x))))(1)


# ---------------------------------------------------------------------------------------
# numeric entry points that vf/catalog.py does not list: label -> (public name, argbuilder(ctx) -> (args, kwargs))
# (arguments are built BEFORE the failpoint is armed)
# ---------------------------------------------------------------------------------------
EXTRAS = {}


def _ex(label, name, fn):
    EXTRAS[label] = (name, fn)


def _m(c):
    return c.matrix([[4, 1, 2], [1, 3, 0.5], [2, 0.5, 5]])


def _mc(c):
    return c.matrix([[4, 1j, 2], [1, 3, 0.5], [2 - 1j, 0.5, 5]])


_ex('hyper/R', 'hyper', lambda c: (([1, 2.5], [c.mpf(1) / 3, 4], c.mpf(0.75)), {}))
_ex('hyper/C', 'hyper', lambda c: (([1, 2.5, 0.5], [c.mpf(1) / 3, 4], c.mpc(0.25, 0.5)), {}))
_ex('hyper/divergent', 'hyper', lambda c: (([1, 2, 3], [4], c.mpf(-30)), {}))
_ex('hypercomb', 'hypercomb', lambda c: ((lambda a: [([2], [a], [], [], [a], [1.5], 0.25)], [0.5]), {}))
_ex('hyp2f1/near1', 'hyp2f1', lambda c: ((1, 1.5, 2.25, c.mpf(0.99)), {}))
_ex('hyp2f1/unit-circle', 'hyp2f1', lambda c: ((1, 1.5, 2.25, c.expjpi(c.mpf(1) / 3)), {}))
_ex('hyp1f1/asymp', 'hyp1f1', lambda c: ((1.5, 2.25, c.mpf(-900)), {}))
_ex('hyp1f1/cancel', 'hyp1f1', lambda c: ((-20.5, 1.5, c.mpf(40)), {}))
_ex('meijerg', 'meijerg', lambda c: (([[1], []], [[0.5], [0]], c.mpf(0.75)), {}))
_ex('appellf2', 'appellf2', lambda c: ((1, 2, 3, 4, 5, c.mpf(0.25), c.mpf(0.125)), {}))
_ex('appellf3', 'appellf3', lambda c: ((1, 2, 3, 4, 5, c.mpf(0.25), c.mpf(0.125)), {}))
_ex('appellf4', 'appellf4', lambda c: ((1, 2, 3, 4, c.mpf(0.125), c.mpf(0.0625)), {}))
_ex('hyper2d', 'hyper2d', lambda c: (({'m+n': [1, 2]}, {'m': [3], 'n': [4]}, c.mpf(0.25), c.mpf(0.125)), {}))
_ex('bihyper', 'bihyper', lambda c: (([2.5], [1.5, 3], c.mpf(0.25)), {}))
_ex('qfac', 'qfac', lambda c: ((c.mpf(0.5), 5), {}))
_ex('qgamma', 'qgamma', lambda c: ((c.mpf(2.5), c.mpf(0.5)), {}))
_ex('qhyper', 'qhyper', lambda c: (([0.5], [0.25], c.mpf(0.5), c.mpf(0.25)), {}))
_ex('gammaprod', 'gammaprod', lambda c: (([1.5, -2], [0.5, -3]), {}))
_ex('dirichlet', 'dirichlet', lambda c: ((c.mpf(2.5), [0, 1, 0, -1]), {}))
_ex('secondzeta', 'secondzeta', lambda c: ((c.mpf(2),), {}))
_ex('rs_z', 'rs_z', lambda c: ((c.mpf(1000),), {}))
_ex('rs_zeta', 'rs_zeta', lambda c: ((c.mpc(0.5, 1000),), {}))
_ex('rs_zeta/offline', 'rs_zeta', lambda c: ((c.mpc(0.75, 1000),), {}))
_ex('rs_z/offline', 'rs_z', lambda c: ((c.mpc(1000, 0.25),), {}))
_ex('siegelz/rs', 'siegelz', lambda c: ((c.mpf(20000.5),), {}))
_ex('zeta/rs', 'zeta', lambda c: ((c.mpc(0.5, 20000),), {}))
_ex('zeta/derivative', 'zeta', lambda c: ((c.mpf(2.5), 1, 2), {}))
_ex('zetazero', 'zetazero', lambda c: ((3,), {}))
_ex('nzeros', 'nzeros', lambda c: ((c.mpf(50),), {}))
_ex('grampoint', 'grampoint', lambda c: ((10,), {}))
_ex('backlunds', 'backlunds', lambda c: ((c.mpf(30),), {}))
_ex('coulombc', 'coulombc', lambda c: ((2, c.mpf(0.5)), {}))
_ex('ellipfun', 'ellipfun', lambda c: (('sn', c.mpf(0.75), c.mpf(0.5)), {}))
_ex('ellipfun/q', 'ellipfun', lambda c: (('cd', c.mpc(0.75, 0.25)), {'q': c.mpf(0.125)}))
_ex('kfrom', 'kfrom', lambda c: ((), {'q': c.mpf(0.25)}))
_ex('mfrom', 'mfrom', lambda c: ((), {'tau': c.mpc(0.25, 1.5)}))
_ex('qfrom', 'qfrom', lambda c: ((), {'m': c.mpf(0.75)}))
_ex('taufrom', 'taufrom', lambda c: ((), {'k': c.mpf(0.75)}))
_ex('qbarfrom', 'qbarfrom', lambda c: ((), {'m': c.mpf(0.75)}))
_ex('jtheta/derivative', 'jtheta', lambda c: ((3, c.mpf(0.75), c.mpf(0.25), 2), {}))
_ex('agm1', 'agm', lambda c: ((c.mpf(0.75),), {}))
_ex('powm', 'powm', lambda c: ((c.matrix([[1, 2], [3, 4]]), c.mpf(0.5)), {}))
_ex('polyval', 'polyval', lambda c: (([1, -3, 2.5, c.mpc(1, 2)], c.mpf(0.75)), {'derivative': True}))
_ex('polyroots', 'polyroots', lambda c: (([1, -6, 11, -6.5],), {}))
_ex('polyroots/error', 'polyroots', lambda c: (([1, 0, 0, -2, 5],), {'error': True, 'extraprec': 40}))
_ex('expm', 'expm', lambda c: ((_m(c),), {}))
_ex('expm/pade', 'expm', lambda c: ((_mc(c),), {'method': 'pade'}))
_ex('cosm', 'cosm', lambda c: ((_m(c) / 4,), {}))
_ex('sinm', 'sinm', lambda c: ((_m(c) / 4,), {}))
_ex('sqrtm', 'sqrtm', lambda c: ((_m(c),), {}))
_ex('logm', 'logm', lambda c: ((_m(c),), {}))
_ex('det', 'det', lambda c: ((_mc(c),), {}))
_ex('inverse', 'inverse', lambda c: ((_m(c),), {}))
_ex('lu_solve', 'lu_solve', lambda c: ((_m(c), c.matrix([1, 2, 3])), {}))
_ex('lu', 'lu', lambda c: ((_m(c),), {}))
_ex('qr', 'qr', lambda c: ((_m(c),), {}))
_ex('qr_solve', 'qr_solve', lambda c: ((_m(c), c.matrix([1, 2, 3])), {}))
_ex('cholesky', 'cholesky', lambda c: ((_m(c),), {}))
_ex('cholesky_solve', 'cholesky_solve', lambda c: ((_m(c), c.matrix([1, 2, 3])), {}))
_ex('improve_solution', 'improve_solution', lambda c: ((_m(c), c.matrix([0.1, 0.5, 0.4]), c.matrix([1, 2, 3])), {}))
_ex('residual', 'residual', lambda c: ((_m(c), c.matrix([0.1, 0.5, 0.4]), c.matrix([1, 2, 3])), {}))
_ex('cond', 'cond', lambda c: ((_m(c),), {}))
_ex('norm', 'norm', lambda c: ((c.matrix([1, 2, c.mpc(3, 4)]), 3), {}))
_ex('mnorm', 'mnorm', lambda c: ((_m(c), 'f'), {}))
_ex('eig', 'eig', lambda c: ((_m(c),), {}))
_ex('eig/left', 'eig', lambda c: ((_mc(c),), {'left': True}))
_ex('eigsy', 'eigsy', lambda c: ((_m(c),), {}))
_ex('eighe', 'eighe', lambda c: ((c.matrix([[2, 1j], [-1j, 3]]),), {}))
_ex('eigh', 'eigh', lambda c: ((_m(c),), {}))
_ex('svd', 'svd', lambda c: ((_m(c),), {}))
_ex('svd_c', 'svd_c', lambda c: ((_mc(c),), {}))
_ex('hessenberg', 'hessenberg', lambda c: ((_m(c),), {}))
_ex('schur', 'schur', lambda c: ((_m(c),), {}))
_ex('pade', 'pade', lambda c: (([1, 1, 0.5, c.mpf(1) / 6, c.mpf(1) / 24, c.mpf(1) / 120], 2, 2), {}))
_ex('identify', 'identify', lambda c: ((c.mpf(2) ** 0.5 + 1, ), {}))
_ex('identify/consts', 'identify', lambda c: ((c.pi * 3 + 1, ['pi']), {}))
_ex('findpoly', 'findpoly', lambda c: ((c.mpf(2) ** 0.5 + 1, 2), {'maxcoeff': 10}))
_ex('pslq', 'pslq', lambda c: (([c.pi, c.mpf(1), c.pi * 2 - 3], ), {'maxcoeff': 100, 'maxsteps': 1000}))
_ex('fsum', 'fsum', lambda c: (([c.mpf(1), 2, 3.5, c.mpc(1, 2), c.mpf('1e-30')],), {}))
_ex('fsum/abs', 'fsum', lambda c: (([c.mpf(1), 2, 3.5, c.mpc(1, 2)],), {'absolute': True, 'squared': True}))
_ex('fdot', 'fdot', lambda c: (([c.mpf(1), 2, 3.5], [c.mpc(1, 2), 3, c.mpf(0.1)]), {}))
_ex('fprod', 'fprod', lambda c: (([c.mpf(1), 2, 3.5, c.mpc(1, 2)],), {}))
_ex('fadd', 'fadd', lambda c: ((c.mpf(1), c.mpf('1e-30')), {'prec': 200}))
_ex('fmul', 'fmul', lambda c: ((c.mpf(3), c.mpc(1, 2)), {'dps': 40}))
_ex('fdiv', 'fdiv', lambda c: ((c.mpf(3), c.mpf(7)), {'exact': True}))
_ex('unitroots', 'unitroots', lambda c: ((7,), {'primitive': True}))
_ex('bernfrac', 'bernfrac', lambda c: ((40,), {}))
_ex('fraction', 'fraction', lambda c: ((1, 3), {}))
_ex('nstr', 'nstr', lambda c: ((c.mpc(1, 3) / 7, 20), {}))
_ex('mpmathify', 'mpmathify', lambda c: (('(1.25e-7+0.375j)',), {}))
_ex('convert/str', 'convert', lambda c: (('3.14159265358979323846264338327950288',), {}))
_ex('linspace', 'linspace', lambda c: ((0, 1, 7), {}))
_ex('arange', 'arange', lambda c: ((0, 1, c.mpf(0.125)), {}))
_ex('sum_accurately', 'sum_accurately', lambda c: ((lambda: iter([c.mpf(1), c.mpf('1e-30'), c.mpf(-1)]),), {}))
_ex('mul_accurately', 'mul_accurately', lambda c: ((lambda: iter([c.mpf(3), c.mpf('1e-30') + 1, 1 / c.mpf(3)]),), {}))
_ex('hypsum', 'hypsum', lambda c: ((1, 1, ('R', 'R'), [c.mpf(1.5), c.mpf(2.5)], c.mpf(0.25)), {}))
_ex('nint_distance', 'nint_distance', lambda c: ((c.mpf(3.0000001),), {}))
_ex('mag', 'mag', lambda c: ((c.mpc(3, 4),), {}))
_ex('almosteq', 'almosteq', lambda c: ((c.mpf(1), c.mpf(1) + c.eps), {}))
_ex('chop', 'chop', lambda c: ((c.mpc(1, 1e-30),), {}))
_ex('primepi2', 'primepi2', lambda c: ((1000,), {}))
_ex('quad', 'quad', lambda c: ((lambda x: c.exp(-x * x), [0, 1]), {}))
_ex('quad/inf', 'quad', lambda c: ((lambda x: c.exp(-x * x), [0, c.inf]), {}))
_ex('quadgl', 'quadgl', lambda c: ((lambda x: c.exp(-x * x), [0, 1]), {}))
_ex('quadosc', 'quadosc', lambda c: ((lambda x: c.sin(x) / (1 + x * x), [0, c.inf]), {'omega': 1}))
_ex('nsum', 'nsum', lambda c: ((lambda k: 1 / k ** 2, [1, c.inf]), {}))
_ex('nsum/e', 'nsum', lambda c: ((lambda k: 1 / k ** 2, [1, c.inf]), {'method': 'e'}))
_ex('nsum/levin', 'nsum', lambda c: ((lambda k: 1 / k ** 2, [1, c.inf]), {'method': 'l'}))
_ex('nprod', 'nprod', lambda c: ((lambda k: 1 - 1 / k ** 2, [2, c.inf]), {}))
_ex('limit', 'limit', lambda c: ((lambda x: c.sin(x) / x, 0), {}))
_ex('diff', 'diff', lambda c: ((c.exp, 1, 2), {}))
_ex('diff/quad', 'diff', lambda c: ((c.exp, 1, 2), {'method': 'quad'}))
_ex('taylor', 'taylor', lambda c: ((c.exp, 0, 5), {}))
_ex('differint', 'differint', lambda c: ((lambda x: x * x, 1, c.mpf(0.5)), {}))
_ex('findroot', 'findroot', lambda c: ((lambda x: x * x - 2, 1), {}))
_ex('findroot/mdnewton', 'findroot', lambda c: ((lambda x, y: [x * x + y * y - 1, x - y], (1, 1)), {}))
_ex('findroot/anderson', 'findroot', lambda c: ((lambda x: x * x - 2, (1, 2)), {'solver': 'anderson'}))
_ex('multiplicity', 'multiplicity', lambda c: ((lambda x: (x - 1) ** 3, 1), {}))
_ex('jacobian', 'jacobian', lambda c: ((lambda x, y: [x * y, x + c.exp(y)], (1, 2)), {}))
_ex('invertlaplace/talbot', 'invertlaplace', lambda c: ((lambda p: 1 / (p + 1), 1), {'method': 'talbot'}))
_ex('invertlaplace/stehfest', 'invertlaplace', lambda c: ((lambda p: 1 / (p + 1), 1), {'method': 'stehfest'}))
_ex('invertlaplace/dehoog', 'invertlaplace', lambda c: ((lambda p: 1 / (p + 1), 1), {'method': 'dehoog'}))
_ex('chebyfit', 'chebyfit', lambda c: ((c.cos, [1, 2], 5), {}))
_ex('fourier', 'fourier', lambda c: ((lambda x: x, [-c.pi, c.pi], 3), {}))
_ex('fourierval', 'fourierval', lambda c: ((([0, 1, 2], [0, 3, 1]), [-c.pi, c.pi], c.mpf(0.5)), {}))
_ex('sumem', 'sumem', lambda c: ((lambda k: 1 / k ** 2, [32, c.inf]), {}))
_ex('sumap', 'sumap', lambda c: ((lambda x: 1 / (1 + x) ** 2, [0, c.inf]), {}))
_ex('richardson', 'richardson', lambda c: (([c.mpf(4) * sum(c.mpf(-1) ** k / (2 * k + 1) for k in range(n)) for n in range(1, 10)],), {}))
_ex('shanks', 'shanks', lambda c: (([c.mpf(4) * sum(c.mpf(-1) ** k / (2 * k + 1) for k in range(n)) for n in range(1, 10)],), {}))
_ex('autoprec', 'autoprec', lambda c: ((lambda t: c.exp(t) - 1,), {}))
_ex('odefun', 'odefun', lambda c: ((lambda x, y: y, 0, 1), {}))

# objects whose methods are public API but do not live on the context: label -> (qualified name, builder(ctx) -> call)
OBJECT_METHODS = {
    'TanhSinh.calc_nodes': lambda c: (lambda: __import__('mpmath').calculus.quadrature.TanhSinh(c).calc_nodes(3, 60)),
    'GaussLegendre.calc_nodes': lambda c: (lambda: __import__('mpmath').calculus.quadrature.GaussLegendre(c).calc_nodes(2, 60)),
    'GaussLegendre.calc_nodes/degree1': lambda c: (lambda: __import__('mpmath').calculus.quadrature.GaussLegendre(c).calc_nodes(1, 60)),
    'TanhSinh.get_nodes': lambda c: (lambda: __import__('mpmath').calculus.quadrature.TanhSinh(c).get_nodes(0, 1, 2, 70)),
    'TanhSinh.summation': lambda c: (lambda: __import__('mpmath').calculus.quadrature.TanhSinh(c).summation(
        lambda x: c.exp(x), [c.mpf(0), c.mpf(1)], c.prec, c.eps * 8, 4)),
    'matrix.__mul__': lambda c: (lambda m=c.matrix([[1, 2], [3, 4.5]]): m * m),
    'matrix.__pow__': lambda c: (lambda m=c.matrix([[1, 2], [3, 4.5]]): m ** 5),
    'matrix.__pow__/negative': lambda c: (lambda m=c.matrix([[1, 2], [3, 4.5]]): m ** -2),
    'matrix.T/H': lambda c: (lambda m=c.matrix([[1, 2j], [3, 4.5]]): (m.T, m.H, m.conjugate())),
    'mpf.__pow__': lambda c: (lambda x=c.mpf(2.5), y=c.mpf(0.3): x ** y),
    'mpf.__pow__/complex': lambda c: (lambda x=c.mpf(-2.5), y=c.mpf(0.3): x ** y),
    'mpc.__pow__': lambda c: (lambda x=c.mpc(2.5, 1), y=c.mpc(0.3, 2): x ** y),
    'mpf.__str__': lambda c: (lambda x=c.mpf(2.5) / 3: (str(x), repr(x))),
    'mpf.__hash__/__float__': lambda c: (lambda x=c.mpf(2.5) / 3: (hash(x), float(x), int(x), complex(x))),
    'mpf.sqrt/ae': lambda c: (lambda x=c.mpf(2.5) / 3: (x.sqrt(), x.ae(x + 1), x.to_fixed(20), x.man_exp if hasattr(x, 'man_exp') else 0)),
    'constant.__call__': lambda c: (lambda: (c.pi(prec=200), c.euler(dps=50), +c.catalan, c.khinchin + 0)),
    'mpf.__divmod__': lambda c: (lambda x=c.mpf(7.5), y=c.mpf(2.25): (x % y, divmod(x, y) if hasattr(x, '__divmod__') else 0)),
}

# ---------------------------------------------------------------------------------------
# natural failures: (public name, argument tuple as source text evaluated with c = context)
# ---------------------------------------------------------------------------------------
NATURAL = [
    ('gamma', '(0,)'), ('gamma', '(-3,)'), ('loggamma', '(0,)'), ('factorial', '(-1,)'), ('digamma', '(0,)'),
    ('digamma', '(-2,)'), ('polygamma', '(1, 0)'), ('harmonic', '(-1,)'), ('beta', '(0, 1)'), ('binomial', '(-1, 0.5)'),
    ('rf', '(-1, 0.5)'), ('ff', '(0, -1)'), ('fac2', '(-2,)'), ('hyperfac', '(-1,)'), ('superfac', '(-1,)'),
    ('zeta', '(1,)'), ('zeta', '(1, 2)'), ('altzeta', '(c.inf,)'),
    ('hurwitz', '(1, 3)'), ('hurwitz', '(2, -3)'), ('polylog', '(1, 1)'), ('polylog', '(0.5, 3)'), ('primezeta', '(1,)'),
    ('primezeta', '(0.25,)'), ('lerchphi', '(1, 1, 1)'), ('lerchphi', '(2, 1, 1)'), ('lerchphi', '(0.5, 1, -2)'),
    ('stieltjes', '(-1,)'), ('bernpoly', '(-1, 2)'), ('riemannr', '(0,)'), ('siegelz', '(c.inf,)'),
    ('erfinv', '(2,)'), ('erfinv', '(-1,)'), ('ei', '(0,)'), ('e1', '(0,)'), ('li', '(1,)'), ('ci', '(0,)'), ('chi', '(0,)'),
    ('expint', '(1, 0)'), ('gammainc', '(0, 0)'), ('gammainc', '(-1, 0, 1)'), ('betainc', '(0, 0, 0, 1)'),
    ('besselk', '(0, 0)'), ('bessely', '(0, 0)'), ('bessely', '(1.5, 0)'), ('hankel1', '(0, 0)'), ('ker', '(0, 0)'),
    ('kei', '(1, 0)'), ('struveh', '(-2.5, 0)'), ('besseljzero', '(0, 0)'), ('besselyzero', '(-1, 1)'),
    ('airyaizero', '(0,)'), ('airybizero', '(-1,)'), ('coulombf', '(-1, 1, 0)'), ('coulombg', '(0, 0, 0)'),
    ('lommels1', '(-1, -2, 1)'), ('whitw', '(1, 1, 0)'), ('whitm', '(1, -1, 1)'),
    ('hyp0f1', '(-2, 1)'), ('hyp1f1', '(1, -2, 3)'), ('hyp2f1', '(1, 1, -2, 0.5)'), ('hyp2f1', '(1, 1, 2, 1)'),
    ('hyp2f1', '(3, 4, 2, 1)'), ('hyp2f0', '(1, 1, 5)'), ('hyp1f2', '(1, -1, 2, 1)'), ('hyp2f2', '(1, 2, -3, 4, 1)'),
    ('hyp3f2', '(1, 2, 3, 4, 5, 2)'), ('hyperu', '(1, 1, 0)'), ('hyp2f3', '(1, 2, -1, 1, 1)'),
    ('legenq', '(1, 0, 1)'), ('legenp', '(-1, 1, -1)'), ('legendre', '(-1.5, -1)'), ('gegenbauer', '(1, -0.5, 1)'),
    ('jacobi', '(-1.5, 1, 2, -1)'), ('laguerre', '(-1, -1, 1)'), ('chebyt', '(0.5, -3)'), ('spherharm', '(1, 2, 0, 0)'),
    ('pcfd', '(-1.5, c.inf)'), ('appellf1', '(1, 1, 1, -1, 0.5, 0.5)'), ('appellf1', '(1, 2, 3, 4, 2, 3)'),
    ('ellipk', '(1,)'), ('ellipe', '(c.inf,)'), ('ellipf', '(c.pi, 2)'), ('ellippi', '(1, 1)'), ('ellippi', '(1, c.pi/2, 1)'),
    ('elliprf', '(0, 0, 1)'), ('elliprc', '(1, 0)'), ('elliprj', '(0, 0, 1, 1)'), ('elliprj', '(1, -1, 2, 3)'),
    ('elliprd', '(0, 0, 1)'), ('elliprg', '(-1, -2, 3)'), ('agm', '(-1, 1)'),
    ('jtheta', '(5, 1, 0.5)'), ('jtheta', '(1, 1, 1.5)'), ('jtheta', '(2, 1, 1)'), ('qp', '(2, 2)'), ('qp', '(1, 1)'),
    ('kleinj', '(0,)'), ('kleinj', '(-1j,)'), ('eta', '(-1j,)'), ('lambertw', '(0, -1)'), ('lambertw', '(c.inf, 1)'),
    ('lambertw', '(c.nan,)'), ('lambertw', '(-c.inf, 0)'),
    ('ln', '(0,)'), ('log', '(0, 0)'), ('log', '(2, 1)'), ('log10', '(0,)'), ('atanh', '(1,)'), ('acoth', '(1,)'),
    ('asec', '(0,)'), ('acsc', '(0,)'), ('asech', '(0,)'), ('acsch', '(0,)'), ('acot', '(0,)'),
    ('cot', '(0,)'), ('csc', '(0,)'), ('coth', '(0,)'), ('csch', '(0,)'), ('sec', '(c.inf,)'), ('tan', '(c.inf,)'),
    ('power', '(0, -1)'), ('power', '(0, c.mpc(0, 1))'), ('root', '(2, 0)'), ('nthroot', '(0, -2)'), ('root', '(-8, 3, 7)'),
    ('sqrt', '(c.nan,)'), ('cbrt', '(c.inf,)'), ('atan2', '(0, 0)'), ('atan2', '(c.nan, 1)'), ('fmod', '(1, 0)'),
    ('log1p', '(-1,)'), ('powm1', '(0, -1)'), ('sinc', '(c.inf,)'), ('sincpi', '(c.inf,)'), ('expm1', '(c.nan,)'),
    ('floor', '(c.inf,)'), ('nint', '(c.nan,)'), ('frac', '(c.inf,)'), ('sign', '(c.nan,)'), ('arg', '(0,)'),
    ('fib', '(c.inf,)'), ('bernoulli', '(-1,)'), ('eulernum', '(-1,)'), ('bell', '(-1, 2)'), ('primepi', '(c.inf,)'),
    ('stirling1', '(-1, 2)'), ('stirling2', '(2, -1)'), ('cyclotomic', '(-1, 2)'), ('moebius', '(0,)'), ('mangoldt', '(-3,)'),
    ('isprime', '(2.5,)'), ('eulerpoly', '(-1, 1)'),
    ('hyper', '([1, 2], [-3], 1)'), ('hyper', '([-20.5], [1.5], 400)', {'maxprec': 60}),
    ('hyp1f1', '(-1000.5, 1.5, 2000)', {'maxprec': 100}), ('hyp2f1', '(1, 1, 2, 0.999)', {'maxterms': 10}),
    ('besselj', '(0.5, 10**6)', {'maxterms': 10}), ('erf', '("abc",)'), ('gamma', '([1],)'), ('zeta', '(None,)'),
    ('besselj', '(1,)'), ('hyp2f1', '(1, 2, 3)'), ('quad', '(lambda x: 1/x, [0, 0])'),
    ('quad', '(lambda x: c.log(x)/c.zero, [0, 1])'), ('nsum', '(lambda k: k, [1, c.inf])'),
    ('nsum', '(lambda k: 1/(k-3), [1, c.inf])'), ('nprod', '(lambda k: k, [1, c.inf])'),
    ('limit', '(lambda x: 1/(x-x), 0)'), ('diff', '(lambda x: 1/x, 0)'), ('diff', '(c.sqrt, 0, 1)', {'method': 'bogus'}),
    ('taylor', '(lambda x: c.ln(x), 0, 3)'), ('findroot', '(lambda x: x*x+1, 1)'), ('findroot', '(lambda x: x*x-2, 1)', {'solver': 'bogus'}),
    ('findroot', '(lambda x: x**2, (-1, 1))', {'solver': 'anderson'}), ('findroot', '(lambda x: 1/x-1/x+1, 0)'),
    ('findroot', '(lambda x: c.mpf(1), 1)'), ('findroot', '(lambda x, y: [x+y, x+y-1], (1, 1))'),
    ('multiplicity', '(lambda x: 1/(x-1), 1)'), ('invertlaplace', '(lambda p: 1/p, 0)'),
    ('invertlaplace', '(lambda p: 1/p, 1)', {'method': 'bogus'}), ('invertlaplace', '(lambda p: 1/(p-p), 1)', {'method': 'talbot'}),
    ('invertlaplace', '(lambda p: 1/(p-p), 1)', {'method': 'stehfest'}), ('invertlaplace', '(lambda p: 1/(p-p), 1)', {'method': 'dehoog'}),
    ('odefun', '(lambda x, y: 1/(x-x), 0, 1)'), ('chebyfit', '(lambda x: 1/(x-x), [0, 1], 3)'),
    ('fourier', '(lambda x: 1/(x-x), [0, 1], 2)'), ('sumem', '(lambda k: 1/(k-k), [1, c.inf])'),
    ('sumap', '(lambda k: 1/(k-k), [1, c.inf])'), ('polyroots', '([0, 1, 2],)'), ('polyroots', '([1, -2, 1, 5, 7, 1e10],)', {'maxsteps': 2}),
    ('polyval', '([], 1)'), ('pade', '([1, 0, 0, 0, 0], 2, 2)'), ('lu_solve', '(c.matrix([[1, 2], [2, 4]]), c.matrix([1, 2]))'),
    ('inverse', '(c.matrix([[1, 2], [2, 4]]),)'), ('cholesky', '(c.matrix([[1, 2], [2, 1]]),)'), ('det', '(c.matrix(2, 3),)'),
    ('qr_solve', '(c.matrix([[0, 0], [0, 0]]), c.matrix([1, 2]))'), ('expm', '(c.matrix(2, 3),)'), 
    ('sqrtm', '(c.matrix([[0, 1], [0, 0]]),)'), ('powm', '(c.matrix([[0, 1], [0, 0]]), -0.5)'), ('eig', '(c.matrix(2, 3),)'),
    ('pslq', '([1, 2],)', {'maxcoeff': 0}), ('findpoly', '(c.pi, 2)', {'maxcoeff': 3, 'maxsteps': 5}),
    ('identify', '(c.pi,)', {'tol': -1}), ('unitroots', '(0,)'), ('bernfrac', '(-1,)'), ('zetazero', '(0,)'),
    ('nzeros', '(-5,)'), ('nzeros', '(15,)'), ('nzeros', '(14.5,)'), ('backlunds', '(15,)'), ('siegelz', '(20000.5,)'), ('zeta', '(c.mpc(0.5, 20000.5),)'), ('grampoint', '(-100,)'), ('secondzeta', '(1,)'), ('dirichlet', '(1, [1])'),
    ('ellipfun', '("xx", 1, 0.5)'), ('qfrom', '()', {'q': 0.5, 'm': 0.5}), ('meijerg', '([[1, 1], []], [[1], [0]], 1)'),
    ('hyper2d', '({"m+n": [1]}, {}, 2, 3)'), ('bihyper', '([1], [], 2)'),
    ('qhyper', '([2], [3], 0.5, 5)'), ('gammaprod', '([0], [1])'), ('gammaprod', '([0, 0], [0])'),
    ('coulombc', '(-1, 1j)'), ('rs_z', '(1000,)'), ('rs_zeta', '(c.mpc(0.5, 1000),)'), ('rs_z', '(1000, 1)'), ('rs_zeta', '(c.mpc(0.75, 1000),)'), ('rs_z', '(c.mpc(1000, 0.25),)'), ('fsum', '([1, "x"],)'), ('fdot', '([1, 2], ["a", 3])'),
    ('convert', '("1.2.3",)'), ('mpmathify', '(object(),)'), ('nstr', '(object(),)'), ('linspace', '(0, 1, -1)'),
    ('arange', '(0, 1, 0)'), ('fraction', '(1, 0)'), ('mag', '(c.nan,)'), ('ldexp', '(1.5, 0.5)'),
    ('workprec', '(-5,)'), ('workdps', '("a",)'), ('extraprec', '(None,)'), ('autoprec', '(lambda x: x/0,)'),
    ('sum_accurately', '(lambda: iter([1, "a"]),)'), ('mul_accurately', '(lambda: iter([c.mpf(0)]),)'),
    ('richardson', '([1],)'), ('shanks', '([],)'), ('fourierval', '(([], []), [0, 0], 1)'),
]


# ---------------------------------------------------------------------------------------
# manager plans: ordered forests with <= 3 with-statements; node = (manager index, raise flag, children)
# ---------------------------------------------------------------------------------------
def _forests(n):
    """all ordered forests with exactly n nodes, as nested tuples of children"""
    if n == 0:
        return [()]
    out = []
    for k in range(1, n + 1):            # size of the first tree
        for kids in _forests(k - 1):
            for rest in _forests(n - k):
                out.append((kids,) + rest)
    return out


def _label(forest, labels):
    """consume labels in pre-order"""
    out = []
    for kids in forest:
        m, rz = next(labels)
        out.append((m, rz, _label(kids, labels)))
    return tuple(out)


def manager_plans(nmgr=2, maxnodes=3):
    plans = []
    for n in range(1, maxnodes + 1):
        for shape in _forests(n):
            for ms in itertools.product(range(nmgr), repeat=n):
                if ms[0] != 0:
                    continue                   # symmetry: first manager used is #0
                for rz in itertools.product((0, 1), repeat=n):
                    plans.append(_label(shape, iter(zip(ms, rz))))
    return plans


def plan_class(plan):
    """a-priori class of a plan: single / sequential / nested, distinct objects or one object re-used"""
    nodes = []

    def walk(f, anc):
        for m, rz, kids in f:
            nodes.append((m, rz, anc))
            walk(kids, anc + (m,))
    walk(plan, ())
    nested_reuse = any(m in anc for m, rz, anc in nodes)
    nested = any(anc for m, rz, anc in nodes)
    ms = [m for m, rz, anc in nodes]
    seq_reuse = len(set(ms)) < len(ms)
    exc = any(rz for m, rz, anc in nodes)
    if len(nodes) == 1:
        c = 'single'
    elif nested_reuse:
        c = 'reuse-nested'
    elif seq_reuse:
        c = 'reuse-sequential' + ('+nesting' if nested else '')
    elif nested:
        c = 'nested-distinct'
    else:
        c = 'sequential-distinct'
    return c + ('+exception' if exc else '')


# ---------------------------------------------------------------------------------------
# wrapper / decorator / callable-object factories: the object is CREATED under precision A and CALLED under
# precision B != A.   label -> (public name, make(ctx, cb) -> object, [call(ctx, obj), ...])
# ---------------------------------------------------------------------------------------
FACTORIES = {}


def _fac(label, name, make, calls):
    FACTORIES[label] = (name, make, calls)


def _quadmod():
    return __import__('mpmath').calculus.quadrature


_three = lambda f: [f, f, f]
_fac('autoprec', 'autoprec', lambda c, cb: c.autoprec(cb(lambda t: c.exp(t) - 1)),
     [lambda c, g: g(c.mpf('1e-10')), lambda c, g: g(c.mpf(2)), lambda c, g: g(c.mpf('1e-10'))])
_fac('autoprec/catch', 'autoprec', lambda c, cb: c.autoprec(cb(lambda t: 1 / (c.exp(t) - 1)), catch=ZeroDivisionError),
     _three(lambda c, g: g(c.mpf('1e-30'))))
_fac('autoprec/maxprec', 'autoprec', lambda c, cb: c.autoprec(cb(lambda t: c.rand()), maxprec=200), _three(lambda c, g: g(1)))
_fac('autoprec/verbose-tuple', 'autoprec', lambda c, cb: c.autoprec(cb(lambda t, u=1: c.sqrt(t) * u), 500),
     [lambda c, g: g(2), lambda c, g: g(3, u=2)])
_fac('memoize', 'memoize', lambda c, cb: c.memoize(cb(c.sin)),
     [lambda c, g: g(1), lambda c, g: g(1), lambda c, g: g(2), lambda c, g: g(1)])
_fac('maxcalls', 'maxcalls', lambda c, cb: c.maxcalls(cb(c.sin), 2), _three(lambda c, g: g(1)))
_fac('memoize(autoprec)', 'memoize', lambda c, cb: c.memoize(c.autoprec(cb(lambda t: c.exp(t) - 1))),
     [lambda c, g: g(c.mpf('1e-10')), lambda c, g: g(c.mpf('1e-10')), lambda c, g: g(c.mpf(3))])
for _k, _n in (('workprec', 100), ('workdps', 30), ('extraprec', 20), ('extradps', 5)):
    _fac('%s/decorator' % _k, _k, (lambda c, cb, _k=_k, _n=_n: getattr(c, _k)(_n)(cb(c.exp))), _three(lambda c, g: g(1)))
    _fac('%s/decorator-normalize' % _k, _k,
         (lambda c, cb, _k=_k, _n=_n: getattr(c, _k)(_n, normalize_output=True)(cb(lambda x: (c.exp(x), c.sin(x))))),
         _three(lambda c, g: g(1)))

    def _use(c, m):
        with m:
            return c.exp(1)
    _fac('%s/with' % _k, _k, (lambda c, cb, _k=_k, _n=_n: getattr(c, _k)(_n)), [_use, _use, _use])
_fac('odefun/interpolant', 'odefun', lambda c, cb: c.odefun(cb(lambda x, y: y), 0, 1),
     [lambda c, f: f(1), lambda c, f: f(c.mpf(0.5)), lambda c, f: f(2)])
_fac('odefun/system', 'odefun', lambda c, cb: c.odefun(cb(lambda x, y: [-y[1], y[0]]), 0, [1, 0]),
     [lambda c, f: f(1), lambda c, f: f(2)])
_fac('diffun', 'diffun', lambda c, cb: c.diffun(cb(c.sin), 2), _three(lambda c, g: g(1)))
_fac('diffun/quad', 'diffun', lambda c, cb: c.diffun(cb(c.sin), 1, method='quad'), [lambda c, g: g(1), lambda c, g: g(2)])
_fac('fourier->fourierval', 'fourierval', lambda c, cb: c.fourier(cb(lambda x: x * x), [-1, 1], 3),
     [lambda c, s: c.fourierval(s, [-1, 1], c.mpf(0.25)), lambda c, s: c.fourierval(s, [-1, 1], c.mpf(0.5))])
_fac('chebyfit->polyval', 'polyval', lambda c, cb: c.chebyfit(cb(c.cos), [1, 2], 5),
     [lambda c, p: c.polyval(p, c.mpf(1.5)), lambda c, p: c.polyval(p, c.mpf(1.25), derivative=True)])
_fac('taylor->polyval', 'polyval', lambda c, cb: c.taylor(cb(c.exp), 0, 5)[::-1], _three(lambda c, p: c.polyval(p, c.mpf(0.5))))
_fac('diffs/generator', 'diffs', lambda c, cb: c.diffs(cb(c.exp), 1, 8), [lambda c, g: next(g)] * 5)
_fac('diffs/generator-singular', 'diffs', lambda c, cb: c.diffs(cb(c.exp), 1, 6, singular=True), [lambda c, g: next(g)] * 4)
_fac('TanhSinh/rule-object', 'quad', lambda c, cb: (_quadmod().TanhSinh(c), cb(lambda x: c.exp(-x * x))),
     [lambda c, o: o[0].summation(o[1], [c.mpf(0), c.mpf(1)], c.prec, c.eps * 8, 6),
      lambda c, o: o[0].get_nodes(0, 1, 3, c.prec + 7),
      lambda c, o: o[0].calc_nodes(2, c.prec + 9),
      lambda c, o: o[0].guess_degree(c.prec)])
_fac('GaussLegendre/rule-object', 'quad', lambda c, cb: (_quadmod().GaussLegendre(c), cb(lambda x: c.exp(-x * x))),
     [lambda c, o: o[0].summation(o[1], [c.mpf(0), c.mpf(1)], c.prec, c.eps * 8, 4),
      lambda c, o: o[0].get_nodes(0, 1, 2, c.prec + 7),
      lambda c, o: o[0].calc_nodes(1, c.prec + 9)])
_fac('quad/after-use-under-A', 'quad', lambda c, cb: (c.quad(c.exp, [0, 1]), cb(lambda x: c.exp(-x * x)))[1],
     [lambda c, f: c.quad(f, [0, 1]), lambda c, f: c.quadgl(f, [0, 1]), lambda c, f: c.quad(f, [0, c.inf])])
_fac('levin/object', 'levin', lambda c, cb: (c.levin(method='levin', variant='u'), cb(lambda k: 1 / c.mpf(k) ** 2)),
     [lambda c, o: o[0].update([o[1](k) for k in range(1, 6)]), lambda c, o: o[0].update([o[1](k) for k in range(6, 11)])])
_fac('cohen_alt/object', 'cohen_alt', lambda c, cb: (c.cohen_alt(), cb(lambda k: 1 / c.mpf(k + 1))),
     [lambda c, o: o[0].update([o[1](k) for k in range(0, 8)]), lambda c, o: o[0].update([o[1](k) for k in range(0, 12)])])
_fac('usertools.monitor', 'monitor', lambda c, cb: __import__('mpmath').monitor(cb(c.sin), input=lambda *a: None, output=lambda *a: None),
     _three(lambda c, g: g(1)))
_fac('constant/call', 'pi', lambda c, cb: (c.pi, c.euler, cb(lambda: 0)),
     [lambda c, o: (o[0](prec=200), o[1](dps=40), +o[0], o[2]()), lambda c, o: (o[0] * 2, 1 / o[1])])
_fac('matrix/created-under-A', 'matrix', lambda c, cb: (c.matrix([[1, 2], [3, 4.5]]), cb(c.exp)),
     [lambda c, o: o[0].apply(o[1]), lambda c, o: c.expm(o[0]), lambda c, o: c.lu_solve(o[0], c.matrix([1, 2])), lambda c, o: o[0] ** 3])
_fac('findroot-solver-closure', 'findroot', lambda c, cb: cb(lambda x: x * x - 2),
     [lambda c, f: c.findroot(f, 1), lambda c, f: c.findroot(f, (1, 2), solver='anderson')])
