"""Worker process: runs one shard of one property against the mpmath tree in VERIF_REPO."""
import os, sys, json, importlib, traceback

def main():
    prop, inpath, outpath = sys.argv[1:4]
    repo = os.environ.get('VERIF_REPO', '/repo')
    # the working tree, not an installed copy
    sys.path[:] = [p for p in sys.path if os.path.abspath(p or '.') != repo]
    sys.path.insert(0, repo)
    try:
        sys.set_int_max_str_digits(0)
    except AttributeError:
        pass
    import mpmath
    assert os.path.abspath(mpmath.__file__).startswith(os.path.abspath(repo) + os.sep), mpmath.__file__
    from vf.core import Recorder
    shard = json.load(open(inpath))
    mod = importlib.import_module('vf.props.' + prop)
    rec = Recorder(prop, shard)
    rec.keymap = getattr(mod, 'KEYMAP', None)
    try:
        if 'replay' in shard:
            mod.replay(shard['replay'], rec)
        else:
            mod.run_shard(shard, rec)
    finally:
        # always hand back what was observed so far
        try:
            import array
            with open(outpath + '.nt', 'wb') as f:
                f.write(array.array('Q', sorted(rec.nontrivial)).tobytes())
            with open(outpath, 'w') as f:
                json.dump(rec.dump(), f)
        except Exception:
            traceback.print_exc()

if __name__ == '__main__':
    main()
