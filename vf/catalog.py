"""Catalog of numeric public entry points of the mp context: category, argument shape, domains.

Argument shape = space separated argument kinds:
  z  real or complex number          x  real number             p  positive real
  n  small non-negative integer      i  integer (any sign)      a  parameter: int / half-int / rational / real / complex
  q  nome, |q| < 1                   m  elliptic parameter (real < 1 mostly, also complex)
  k  branch index                    u  real in (-1, 1)         o  order: integer or real (Bessel-like)
Arguments are generated as *specs* so that the very same exact values can be built in the tree and in the
reference library:   ('I', int)  ('R', raw)  ('C', raw_re, raw_im)  with raw = canonical (sign, man, exp, bc).

Categories without a trailing '+' are the original table (names(category) of those is stable: other checks
iterate them).  Categories with a trailing '+' ('zeta+', 'hyper+', ...) and 'arith', 'exact', 'constant', 'inspect'
were added later so that *every* public callable of mp is either in ENTRIES or in EXCLUDED (see consistency()).
Their shapes may use the additional kinds
  Lz list of 1..4 numbers   La list of 0..3 parameters   G pair of parameter lists (meijerg)   chi Dirichlet character
  ek kind string of ellipfun   NAME=kind  keyword argument   xbig / zbig  real / complex with (imaginary) part in 2^[15,18]
which produce the additional specs ('S', str)  ('L', [spec, ...])  ('K', name, spec); build() handles S and L,
split_args()/call() handle K (keyword) specs.  family(name) maps 'zeta+' -> 'zeta'.
"""
import math
from .exactq import canon, fzero

# name: (category, shape)
ENTRIES = {}


def _add(cat, shape, names):
    for n in names.split():
        ENTRIES[n] = (cat, shape)


# ---- elementary (C12/C13) -------------------------------------------------------------
_add('elementary', 'z', 'exp ln sqrt cbrt sin cos tan sec csc cot sinh cosh tanh sech csch coth '
     'asin acos atan asec acsc acot asinh acosh atanh asech acsch acoth '
     'sinpi cospi expj expjpi log1p expm1 sinc sincpi')
_add('elementary', 'z z', 'power powm1')
_add('elementary', 'z', 'log log10')
_add('elementary', 'x x', 'atan2 hypot')
_add('elementary', 'z', 'arg phase')
_add('elementary', 'z n1', 'root nthroot')
_add('elementary', 'z', 'cos_sin cospi_sinpi')
_add('intpart', 'z', 'floor ceil nint frac')
_add('intpart', 'x x0', 'fmod')
_add('utility', 'z', 'sign fabs re im conj degrees radians')
# ---- gamma family (C18) ---------------------------------------------------------------
_add('gamma', 'z', 'gamma rgamma loggamma factorial fac fac2 digamma harmonic barnesg superfac hyperfac')
_add('gamma', 'z z', 'beta binomial rf ff')
_add('gamma', 'n z', 'polygamma psi')
# ---- zeta family (C19) ----------------------------------------------------------------
_add('zeta', 'z', 'zeta altzeta primezeta siegeltheta siegelz riemannr')
_add('zeta', 'z p', 'hurwitz')
_add('zeta', 'a z', 'polylog')
_add('zeta', 'n z', 'bernpoly eulerpoly')
_add('zeta', 'n', 'stieltjes')
_add('zeta', 'u a p', 'lerchphi')
_add('zeta', 'a z', 'clsin clcos polyexp')
# ---- error / exponential integrals (C20) ------------------------------------------------
_add('expint', 'z', 'erf erfc erfi npdf ncdf ei e1 li si ci shi chi fresnels fresnelc')
_add('expint', 'u', 'erfinv')
_add('expint', 'a z', 'expint')
_add('expint', 'a z', 'gammainc')
_add('expint', 'p p u01', 'betainc')
# ---- Bessel & friends (C21) ------------------------------------------------------------
_add('bessel', 'o z', 'besselj bessely besseli besselk hankel1 hankel2 struveh struvel ber bei ker kei angerj webere')
_add('bessel', 'z', 'airyai airybi scorergi scorerhi j0 j1')
_add('bessel', 'o p z', 'coulombf coulombg')
_add('bessel', 'o o z', 'lommels1 lommels2')
_add('bessel', 'o n1', 'besseljzero besselyzero')
_add('bessel', 'n1', 'airyaizero airybizero')
# ---- hypergeometric & orthogonal polynomials (C22) ------------------------------------------
_add('hyper', 'a z', 'hyp0f1')
_add('hyper', 'a a z', 'hyp1f1 hyperu hyp2f0')
_add('hyper', 'a a a z', 'hyp1f2 hyp2f1')
_add('hyper', 'a a a a z', 'hyp2f2')
_add('hyper', 'a a a a a z', 'hyp2f3 hyp3f2')
_add('hyper', 'a a z', 'whitm whitw')
_add('hyper', 'n z', 'legendre chebyt chebyu hermite')
_add('hyper', 'a a z', 'legenp legenq gegenbauer laguerre')
_add('hyper', 'n a a z', 'jacobi')
_add('hyper', 'a z', 'pcfd pcfu pcfv pcfw')
_add('hyper', 'n i x x', 'spherharm')
_add('hyper', 'a a a a u u', 'appellf1')
# ---- elliptic / theta / W (C23) ----------------------------------------------------------
_add('elliptic', 'm', 'ellipk ellipe')
_add('elliptic', 'z m', 'ellipf')
_add('elliptic', 'p p p', 'elliprf elliprd elliprg')
_add('elliptic', 'p p', 'elliprc agm')
_add('elliptic', 'p p p p', 'elliprj')
_add('elliptic', 'u z m', 'ellippi')
_add('elliptic', 'j z q', 'jtheta')
_add('elliptic', 'z k', 'lambertw')
_add('elliptic', 'z q', 'qp')
_add('elliptic', 'tau', 'kleinj eta')
# ---- number theory (C25) ---------------------------------------------------------------
_add('numtheory', 'i', 'fib fibonacci bernoulli eulernum bell primepi mangoldt moebius isprime')
_add('numtheory', 'n n', 'stirling1 stirling2')
_add('numtheory', 'n z', 'cyclotomic')

# =========================================================================================
# Later additions (categories ending in '+', 'arith', 'exact', 'constant', 'inspect'): the rest of the numeric
# public callables, so that the cross-cutting monitors (C01, C10, C11, C24) can reach every one of them.
# =========================================================================================
_add('elementary+', 'z', 'polar')                      # returns a tuple (r, phi)
_add('elementary+', 'x x', 'rect')
_add('elementary+', 'n1', 'unitroots')                 # returns a list
_add('elementary+', 'Lz z', 'polyval')
_add('utility+', 'z', 'absmax absmin conjugate chop')
_add('utility+', 'x x x', 'arange')
_add('utility+', 'x x n1', 'linspace')
_add('gamma+', 'La La', 'gammaprod')
_add('zeta+', 'z chi', 'dirichlet')
_add('zeta+', 'z', 'secondzeta')
_add('zeta+', 'zbig', 'rs_zeta')                 # Riemann-Siegel: needs a large imaginary part
_add('zeta+', 'xbig', 'rs_z')
_add('zeta+', 'p', 'nzeros backlunds')
_add('zeta+', 'n', 'grampoint')
_add('zeta+', 'n1', 'zetazero')
_add('bessel+', 'o p', 'coulombc')
_add('hyper+', 'La La z', 'hyper')
_add('hyper+', 'La La u', 'bihyper')
_add('hyper+', 'G G z', 'meijerg')
_add('hyper+', 'a a a a a u u', 'appellf2 appellf3')
_add('hyper+', 'a a a a u u', 'appellf4')
_add('hyper+', 'z q', 'qgamma qfac')
_add('hyper+', 'La La q u', 'qhyper')
_add('elliptic+', 'z', 'agm1')
_add('elliptic+', 'ek z m', 'ellipfun')
_add('elliptic+', 'm=m', 'kfrom qfrom qbarfrom taufrom')
_add('elliptic+', 'q=q', 'mfrom')
# arithmetic helper functions (rounded to the working precision unless exact=True / prec=inf is given)
_add('arith', 'z z', 'fadd fsub fmul fdiv')
_add('arith', 'z', 'fneg')
_add('arith', 'Lz', 'fsum fprod')
_add('arith', 'Lz Lz', 'fdot')
# documented exact (C10 exemption list)
_add('exact', 'x i', 'ldexp')
_add('exact', 'x', 'frexp')
_add('exact', 'z', 'convert mpmathify')
# constants: callable objects  pi(prec=, dps=, rounding=)
_add('constant', '', 'pi e phi euler catalan apery khinchin glaisher twinprime mertens degree ln2 ln10 eps')
# classification / inspection helpers returning Python ints / bools / tuples of ints
_add('inspect', 'z', 'isinf isnan isnormal isint isfinite isnpint mag nint_distance')
_add('inspect', 'z z', 'almosteq')

# Public callables of mp that are deliberately NOT in the table, with the reason.
EXCLUDED = {}


def _excl(reason, names):
    for n in names.split():
        EXCLUDED[n] = reason


_excl('plotting', 'plot cplot splot default_color_function phase_color_function')
_excl('number / matrix / exception types (constructors are driven directly by the checks that need them)',
      'mpf mpc mpq matrix constant ComplexResult NoConvergence')
_excl('raw constructors used by the harness itself to inject exact operands', 'make_mpf make_mpc')
_excl('context utility (precision management, configuration, printing, cloning); no numeric result',
      'clone default extraprec extradps workprec workdps autoprec init_builtins warn bad_domain maxcalls memoize '
      'nstr nprint npconvert to_fixed fraction rand')
_excl('matrix / linear-algebra routine (matrix arguments; properties C30-C33)',
      'LU_decomp L_solve U_solve cholesky cholesky_solve cond det diag eig eig_sort eigh eighe eigsy expm cosm sinm logm '
      'sqrtm powm extend eye hessenberg hilbert householder improve_solution inverse lu lu_solve lu_solve_mat mnorm norm '
      'ones qr qr_solve randmatrix residual schur svd svd_c svd_r swap_row unitvector zeros gauss_quadrature')
_excl('calculus routine taking a callback (properties C26-C29, C34, C36, C42)',
      'quad quadgl quadts quadosc nsum nprod limit diff diffs diffs_exp diffs_prod diffun differint difference taylor pade '
      'jacobian findroot multiplicity polyroots odefun fourier fourierval chebyfit invertlaplace invlapdehoog '
      'invlapstehfest invlaptalbot sumem sumap richardson shanks levin cohen_alt adaptive_extrapolation '
      'sum_accurately mul_accurately hypercomb')
_excl('integer relation / constant recognition (property C35)', 'pslq findpoly identify')
_excl('internal summation kernel (coefficient-type flags, not a user-level numeric signature); reached through hyper()',
      'hypsum')
_excl('dict-of-lists parameter structure; reached through appellf1..appellf4 which call it', 'hyper2d')
_excl('internal helper of the error-function family (returns a pair of scaled arguments)', 'square_exp_arg')
_excl('downloads a table from the network', 'oldzetazero')
_excl('memoised alias of zetazero (same code)', 'zetazero_memoized')
_excl('returns an interval (iv.mpf), not an mp number', 'primepi2')
_excl('exact rational / integer list helpers (no mpf result)', 'bernfrac list_primes')


def family(name):
    """category of a function without the '+' marker of later additions"""
    return ENTRIES[name][0].rstrip('+')


def consistency(ctx):
    """Setup self-test: names of public callables (and public types) of the context that are neither in ENTRIES
    nor in EXCLUDED, plus table names that do not exist on the context.  Should be empty."""
    bad = []
    for name in dir(ctx):
        if name.startswith('_'):
            continue
        try:
            v = getattr(ctx, name)
        except Exception:
            continue
        if not callable(v):
            continue
        if name not in ENTRIES and name not in EXCLUDED:
            bad.append(name)
    for name in list(ENTRIES) + list(EXCLUDED):
        if not hasattr(ctx, name):
            bad.append('missing-on-context:' + name)
    for name in ENTRIES:
        if name in EXCLUDED:
            bad.append('both-listed:' + name)
    return sorted(bad)


# functions whose documented behaviour includes raising for some numeric arguments
DOCUMENTED_EXC = ('ValueError', 'ZeroDivisionError', 'NoConvergence', 'NotImplementedError', 'ComplexResult',
                  'OverflowError')

# names present in ENTRIES that are aliases / do not exist on mp are dropped at import of the tree
ALIASES = {}


ORIGINAL_CATEGORIES = ('elementary', 'intpart', 'utility', 'gamma', 'zeta', 'expint', 'bessel', 'hyper', 'elliptic',
                       'numtheory')
ADDED_CATEGORIES = ('elementary+', 'utility+', 'gamma+', 'zeta+', 'bessel+', 'hyper+', 'elliptic+', 'arith', 'exact',
                    'constant', 'inspect')


def names(category=None, extended=False):
    """names of one category; with category=None the names of the ORIGINAL categories (backward compatible: their
    specs are plain I/R/C positional arguments), or of all categories when extended=True"""
    if category is None:
        cats = ORIGINAL_CATEGORIES + (ADDED_CATEGORIES if extended else ())
        return sorted(n for n, (c, s) in ENTRIES.items() if c in cats and ALIASES.get(n, n))
    return sorted(n for n, (c, s) in ENTRIES.items() if c == category and ALIASES.get(n, n))


def all_names():
    return names(None, extended=True)


# ---------------------------------------------------------------------------------------
# argument specs
# ---------------------------------------------------------------------------------------

def R(raw):
    return ('R', raw)


def C(re, im):
    return ('C', re, im)


def I(n):
    return ('I', int(n))


def S(text):
    return ('S', str(text))


def L(items):
    return ('L', list(items))


def K(name, spec):
    """keyword argument name=spec (only produced for shapes of the later-added categories)"""
    return ('K', name, spec)


def raw_from_float(f):
    if f == 0:
        return fzero
    m, e = math.frexp(abs(f))
    return canon(1 if f < 0 else 0, int(m * 2**53), e - 53)


def raw_rand(r, bits, lo_exp, hi_exp, sign=None):
    """random dyadic with ``bits`` mantissa bits and magnitude 2^[lo_exp, hi_exp)"""
    m = (1 << (bits - 1)) | r.getrandbits(max(bits - 1, 1)) | 1 if bits > 1 else 1
    top = r.randint(lo_exp, hi_exp)
    s = r.randint(0, 1) if sign is None else sign
    return canon(s, m, top - m.bit_length())


def build(ctx, spec):
    """Build the exact value of a spec inside a context (tree mp, clone, or reference mp)."""
    k = spec[0]
    if k == 'I':
        return spec[1]
    if k == 'R':
        return ctx.make_mpf(_mpz(ctx, spec[1]))
    if k == 'C':
        return ctx.make_mpc((_mpz(ctx, spec[1]), _mpz(ctx, spec[2])))
    if k == 'S':
        return spec[1]
    if k == 'L':
        return [build(ctx, x) for x in spec[1]]
    if k == 'K':
        raise ValueError('keyword spec: use split_args()/call()')
    raise ValueError(spec)


def split_args(ctx, specs):
    """(args, kwargs) built from a spec list that may contain K (keyword) specs"""
    args, kw = [], {}
    for sp in specs:
        if sp[0] == 'K':
            kw[sp[1]] = build(ctx, sp[2])
        else:
            args.append(build(ctx, sp))
    return args, kw


def call(ctx, name, specs, **kwargs):
    """ctx.<name>(*specs, **kwargs) with keyword specs honoured"""
    args, kw = split_args(ctx, specs)
    kw.update(kwargs)
    return getattr(ctx, name)(*args, **kw)


def _mpz(ctx, raw):
    return (raw[0], int(raw[1]), raw[2], raw[3])


def spec_of(x):
    """spec of a tree value (mpf/mpc/int/float/complex)"""
    if isinstance(x, int):
        return I(x)
    if isinstance(x, float):
        return R(raw_from_float(x))
    if isinstance(x, complex):
        return C(raw_from_float(x.real), raw_from_float(x.imag))
    if hasattr(x, '_mpf_'):
        return R(tuple(x._mpf_))
    if hasattr(x, '_mpc_'):
        return C(tuple(x._mpc_[0]), tuple(x._mpc_[1]))
    raise TypeError(x)


def gen_number(r, bits, kind, mag=None):
    """kind: 'x' real, 'z' real or complex, 'p' positive real, 'u' in (-1,1), 'u01' in (0,1)"""
    mag = mag or r.choice([(-3, 3), (-3, 3), (-12, 0), (0, 6), (-40, -20), (5, 12)])
    if kind == 'p':
        return R(raw_rand(r, bits, mag[0], mag[1], sign=0))
    if kind == 'u':
        return R(raw_rand(r, bits, -r.choice([1, 2, 8, 30]), 0))
    if kind == 'u01':
        return R(raw_rand(r, bits, -r.choice([1, 2, 8]), 0, sign=0))
    if kind == 'x' or (kind == 'z' and r.random() < 0.5):
        return R(raw_rand(r, bits, mag[0], mag[1]))
    mag2 = mag if r.random() < 0.7 else r.choice([(-3, 3), (-30, -10), (3, 9)])
    return C(raw_rand(r, bits, mag[0], mag[1]), raw_rand(r, bits, mag2[0], mag2[1]))


def gen_param(r, bits):
    """parameter: small int, half-integer, rational-ish dyadic, real, complex, near a non-positive integer"""
    x = r.random()
    if x < 0.3:
        return I(r.randint(-6, 12))
    if x < 0.45:
        return R(canon(r.randint(0, 1), 2 * r.randint(0, 12) + 1, -1))      # half-integer
    if x < 0.6:
        return R(canon(r.randint(0, 1), r.randint(1, 64) | 1, -r.randint(1, 4)))
    if x < 0.75:
        return R(raw_rand(r, bits, -2, 4))
    if x < 0.85:
        n = -r.randint(0, 5)
        k = r.choice([10, 20, 40])
        m = (abs(n) << k) + r.choice([-1, 1]) if n else 1
        return R(canon(1 if n else r.randint(0, 1), m, -k))                  # -n +- 2^-k
    return C(raw_rand(r, bits, -2, 3), raw_rand(r, bits, -2, 3))


def gen_args(name, r, bits=53, mag=None, real_only=False):
    """argument specs for one call of a catalog function"""
    cat, shape = ENTRIES[name]
    out = []
    for kind in shape.split():
        if '=' in kind:
            kwname, kind = kind.split('=')
            sub = _gen_kind(kind, r, bits, mag, real_only)
            out.append(K(kwname, sub))
            continue
        out.append(_gen_kind(kind, r, bits, mag, real_only))
    return out


def _gen_kind(kind, r, bits, mag, real_only):
    out = []
    if True:
        if kind == 'Lz':
            n = r.randint(1, 4)
            out.append(L([gen_number(r, bits, 'x' if real_only else 'z', mag or (-3, 3)) for _ in range(n)]))
        elif kind == 'La':
            n = r.choice([0, 1, 1, 2, 2, 3])
            items = [gen_param(r, bits) for _ in range(n)]
            if real_only:
                items = [R(p[1]) if p[0] == 'C' else p for p in items]
            out.append(L(items))
        elif kind == 'G':
            def plist():
                items = [gen_param(r, bits) for _ in range(r.choice([0, 1, 1, 2]))]
                return L([R(p[1]) if (real_only and p[0] == 'C') else p for p in items])
            out.append(L([plist(), plist()]))
        elif kind == 'chi':
            out.append(L([I(v) for v in r.choice([[1], [1], [0, 1], [0, 1, 0, -1], [0, 1, -1], [-1, 1]])]))
        elif kind == 'ek':
            out.append(S(r.choice(['sn', 'cn', 'dn', 'sc', 'cd', 'nd', 'ns', 'ds'])))
        elif kind == 'xbig':
            out.append(R(raw_rand(r, bits, 15, 18, sign=0)))
        elif kind == 'zbig':
            out.append(C(raw_rand(r, bits, -2, 1, sign=0), raw_rand(r, bits, 15, 18, sign=0)))
        elif kind in ('z', 'x', 'p', 'u', 'u01'):
            k2 = 'x' if (real_only and kind == 'z') else kind
            out.append(gen_number(r, bits, k2, mag))
        elif kind == 'x0':
            v = gen_number(r, bits, 'x', mag)
            out.append(v)
        elif kind == 'n':
            out.append(I(r.choice([0, 1, 2, 3, 4, 5, 7, 10, 20])))
        elif kind == 'n1':
            out.append(I(r.choice([1, 2, 3, 4, 5, 7, 10])))
        elif kind == 'i':
            out.append(I(r.choice([-7, -2, -1, 0, 1, 2, 3, 5, 10, 17, 30, 64, 100])))
        elif kind == 'j':
            out.append(I(r.randint(1, 4)))
        elif kind == 'k':
            out.append(I(r.choice([0, 0, -1, 1, 2, -2, 5, -7])))
        elif kind == 'a':
            p = gen_param(r, bits)
            if real_only and p[0] == 'C':
                p = R(p[1])
            out.append(p)
        elif kind == 'o':
            x = r.random()
            if x < 0.5:
                out.append(I(r.randint(-5, 20)))
            elif x < 0.75 or real_only:
                out.append(R(raw_rand(r, bits, -2, 4)))
            else:
                out.append(C(raw_rand(r, bits, -2, 3), raw_rand(r, bits, -2, 2)))
        elif kind == 'q':
            if real_only or r.random() < 0.6:
                out.append(R(raw_rand(r, bits, -r.choice([1, 1, 2, 4, 10]), 0)))
            else:
                out.append(C(raw_rand(r, bits, -r.choice([2, 3, 6]), -1), raw_rand(r, bits, -r.choice([2, 3, 6]), -1)))
        elif kind == 'm':
            x = r.random()
            if x < 0.6 or real_only:
                out.append(R(raw_rand(r, bits, -r.choice([1, 1, 2, 6, 20]), 0)))
            elif x < 0.8:
                out.append(R(raw_rand(r, bits, 0, 3, sign=1)))
            else:
                out.append(C(raw_rand(r, bits, -2, 2), raw_rand(r, bits, -2, 2)))
        elif kind == 'tau':
            out.append(C(raw_rand(r, bits, -3, 1), raw_rand(r, bits, -1, 2, sign=0)))
        else:
            raise ValueError(kind)
    return out[0]
