"""Helpers shared by the checks C29, C34, C35, C36, C42 (exact conversions, reference transfer, small
polynomial toolkit over Fraction).  No mpmath import at module level: the tree / the reference release are
passed in."""
from fractions import Fraction as Fr
import math
import contextlib


# ---- exact conversions -------------------------------------------------------------------
def raw_fr(t):
    """raw (sign, man, exp, bc) -> Fraction (finite values only)"""
    s, m, e, b = t
    m = int(m)
    if not m:
        if e != 0:
            raise ValueError('special value')
        return Fr(0)
    v = Fr(m << e) if e >= 0 else Fr(m, 1 << (-e))
    return -v if s else v


def fr(x):
    """tree/reference mpf, int, float -> exact Fraction"""
    if hasattr(x, '_mpf_'):
        return raw_fr(x._mpf_)
    if isinstance(x, (int, float)):
        return Fr(x)
    if isinstance(x, Fr):
        return x
    raise TypeError(type(x))


def cfr(z):
    """mpf / mpc / python number -> (re, im) exact Fractions"""
    if hasattr(z, '_mpc_'):
        return raw_fr(z._mpc_[0]), raw_fr(z._mpc_[1])
    if isinstance(z, complex):
        return Fr(z.real), Fr(z.imag)
    return fr(z), Fr(0)


def is_finite(x):
    try:
        cfr(x)
        return True
    except (ValueError, TypeError, OverflowError):
        return False


def mk(ctx, q):
    """Fraction with power-of-two denominator (or int) -> exact ctx.mpf"""
    q = Fr(q)
    d = q.denominator
    assert d & (d - 1) == 0, 'not dyadic'
    n = q.numerator
    from vf.exactq import canon
    return ctx.make_mpf(canon(1 if n < 0 else 0, abs(n), -(d.bit_length() - 1)))


def hexq(q):
    q = Fr(q)
    return '%d/%d' % (q.numerator, q.denominator)


def unhexq(s):
    a, b = s.split('/')
    return Fr(int(a), int(b))


@contextlib.contextmanager
def at_prec(ctx, p):
    old = ctx.prec
    ctx.prec = p
    try:
        yield
    finally:
        ctx.prec = old


def dyadic(r, lo, hi, den):
    """random dyadic rational k/den with lo <= value <= hi"""
    return Fr(r.randint(int(lo * den), int(hi * den)), den)


# ---- polynomials over Fraction (coefficients highest degree first, like polyval) ---------------------
def pmul(a, b):
    out = [Fr(0)] * (len(a) + len(b) - 1)
    for i, x in enumerate(a):
        if x:
            for j, y in enumerate(b):
                out[i + j] += x * y
    return out


def pder(c):
    n = len(c) - 1
    return [c[i] * (n - i) for i in range(n)] or [Fr(0)]


def peval(c, x):
    acc = Fr(0)
    for k in c:
        acc = acc * x + k
    return acc


def cmul(a, b):
    return (a[0] * b[0] - a[1] * b[1], a[0] * b[1] + a[1] * b[0])


def cpeval(c, z):
    """complex Horner in exact arithmetic; z = (re, im)"""
    ar, ai = Fr(0), Fr(0)
    zr, zi = z
    for k in c:
        ar, ai = ar * zr - ai * zi + k, ar * zi + ai * zr
    return ar, ai


def to_int_coeffs(c):
    L = 1
    for k in c:
        L = L * k.denominator // math.gcd(L, k.denominator)
    return [int(k * L) for k in c], L


def sqrt_up(q, bits=256):
    """upper bound of sqrt(q) for a Fraction q >= 0 (relative excess <= 2^-bits-ish)"""
    if q <= 0:
        return Fr(0)
    n, d = q.numerator, q.denominator
    # scale so that the integer square root keeps `bits` bits
    sh = max(0, bits + (d.bit_length() - n.bit_length()) // 2 + 2)
    v = math.isqrt((n << (2 * sh)) // d) + 1
    return Fr(v, 1 << sh)


def sqrt_down(q, bits=256):
    if q <= 0:
        return Fr(0)
    n, d = q.numerator, q.denominator
    sh = max(0, bits + (d.bit_length() - n.bit_length()) // 2 + 2)
    v = math.isqrt((n << (2 * sh)) // d)
    return Fr(v, 1 << sh)


def cabs_up(z):
    return sqrt_up(z[0] * z[0] + z[1] * z[1])


def flo(q):
    """Fraction -> float for reporting only (never for decisions)"""
    try:
        return float(q)
    except OverflowError:
        return float('inf') if q > 0 else float('-inf')


def mkc(ctx, re, im):
    """exact ctx.mpc from two dyadic Fractions (mpc(mpf, mpf) would round to the working precision)"""
    return ctx.make_mpc((mk(ctx, re)._mpf_, mk(ctx, im)._mpf_))
