"""exactq -- exact rational reference model (no mpmath import).

Exact values are ``Ex(n, d, e, s)`` = (n/d) * 2**e  (+ s * epsilon), with n a signed int, d a positive
int, e an int of *any* size and s in {-1, 0, +1} an optional infinitesimal ("sticky") perturbation used
when an addend lies astronomically far below the other operand.  Specials are the strings
'nan', '+inf', '-inf'.

Raw mpmath values are tuples (sign, man, exp, bc).  ``round_to`` produces the canonical raw tuple that a
correctly rounded operation must return; it exists in two independently written forms
(``round_to`` and ``round_to_naive``) that are compared in the self-test.
"""
from fractions import Fraction
import math

NAN, PINF, NINF = 'nan', '+inf', '-inf'
fzero = (0, 0, 0, 0)
fnan = (0, 0, -123, -1)
finf = (0, 0, -456, -2)
fninf = (1, 0, -789, -3)
MODES = ('n', 'f', 'c', 'd', 'u')
FAR = 3_000_000   # addends more than this many bits below the other operand's last bit become sticky


class Ex(object):
    __slots__ = ('n', 'd', 'e', 's')

    def __init__(self, n, d=1, e=0, s=0):
        if d < 0:
            n, d = -n, -d
        self.n, self.d, self.e, self.s = n, d, e, s

    def __repr__(self):
        return 'Ex(%s/%s*2^%s%s)' % (hex(self.n), hex(self.d), self.e, {0: '', 1: '+eps', -1: '-eps'}[self.s])

    def sign(self):
        if self.n:
            return 1 if self.n > 0 else -1
        return self.s

    def is_zero(self):
        return self.n == 0 and self.s == 0

    def fraction(self):
        assert self.s == 0
        if self.e >= 0:
            return Fraction(self.n << self.e, self.d)
        return Fraction(self.n, self.d << (-self.e))


def is_special(x):
    return isinstance(x, str)


def from_raw(t):
    sign, man, exp, bc = t
    if not man:
        if exp == 0:
            return Ex(0)
        if t == finf:
            return PINF
        if t == fninf:
            return NINF
        return NAN
    return Ex(-int(man) if sign else int(man), 1, exp, 0)


def from_int(n):
    return Ex(int(n))


def from_float(f):
    if f != f:
        return NAN
    if f == math.inf:
        return PINF
    if f == -math.inf:
        return NINF
    m, e = math.frexp(f)
    return Ex(int(m * 2**53), 1, e - 53)


def from_fraction(q):
    return Ex(q.numerator, q.denominator, 0)


def canon(sign, man, exp):
    """canonical raw tuple of (-1)**sign * man * 2**exp, man >= 0"""
    if not man:
        return fzero
    t = (man & -man).bit_length() - 1
    man >>= t
    return (sign, man, exp + t, man.bit_length())


def is_canonical(t):
    """The C01 predicate on a raw tuple."""
    try:
        sign, man, exp, bc = t
    except Exception:
        return False
    if type(t) is not tuple:
        return False
    if not isinstance(man, int) or isinstance(man, bool):
        return False
    if man == 0:
        return t == fzero or t == fnan or t == finf or t == fninf
    if sign not in (0, 1) or isinstance(sign, bool) and False:
        return False
    if man < 0 or not (man & 1):
        return False
    if not isinstance(exp, int) or not isinstance(bc, int):
        return False
    return bc == man.bit_length()


def raw_of_special(x):
    return {NAN: fnan, PINF: finf, NINF: fninf}[x]


# ---------------------------------------------------------------------------------------
# rounding
# ---------------------------------------------------------------------------------------

def _round_int_mag(Q, E, sign, p, mode):
    """Round magnitude Q*2**E (Q > 0 integer, possibly a sticky stand-in with >= p+2 bits) to p bits."""
    bl = Q.bit_length()
    if bl <= p:
        return canon(sign, Q, E)
    sh = bl - p
    m = Q >> sh
    rem = Q & ((1 << sh) - 1)
    if rem:
        if mode == 'n':
            half = 1 << (sh - 1)
            if rem > half or (rem == half and (m & 1)):
                m += 1
        elif mode == 'f':
            if sign:
                m += 1
        elif mode == 'c':
            if not sign:
                m += 1
        elif mode == 'u':
            m += 1
        elif mode == 'd':
            pass
        else:
            raise ValueError(mode)
    return canon(sign, m, E + sh)


def round_to(x, p, mode):
    """Correct rounding of an exact value to p bits -> canonical raw tuple."""
    if is_special(x):
        return raw_of_special(x)
    n, d, e, s = x.n, x.d, x.e, x.s
    if n == 0:
        if s == 0:
            return fzero
        raise ValueError('cannot round a bare infinitesimal')
    sign = 1 if n < 0 else 0
    N = -n if sign else n
    smag = -s if sign else s
    if d == 1 and smag == 0:
        return _round_int_mag(N, e, sign, p, mode)
    k = p + 4 - (N.bit_length() - d.bit_length())
    if k < 0:
        k = 0
    q, r = divmod(N << k, d)
    # q has at least p+2 bits here
    if r or smag > 0:
        Q = (q << 1) | 1
    elif smag < 0:
        Q = (q << 1) - 1
    else:
        Q = q << 1
    return _round_int_mag(Q, e - k - 1, sign, p, mode)


def round_to_naive(x, p, mode):
    """Independent formulation: find the two bracketing p-bit neighbours by comparison (s == 0 only,
    moderate exponents)."""
    if is_special(x):
        return raw_of_special(x)
    assert x.s == 0
    v = x.fraction()
    if v == 0:
        return fzero
    sign = 1 if v < 0 else 0
    a = -v if sign else v
    # t = floor(log2 a)
    t = a.numerator.bit_length() - a.denominator.bit_length()
    while Fraction(2) ** t > a:
        t -= 1
    while Fraction(2) ** (t + 1) <= a:
        t += 1
    ulp_e = t - p + 1
    ulp = Fraction(2) ** ulp_e
    lo = a // ulp            # integer
    lo_v = lo * ulp
    if lo_v == a:
        return canon(sign, int(lo), ulp_e)
    hi = lo + 1
    hi_v = hi * ulp
    if mode == 'n':
        dl, dh = a - lo_v, hi_v - a
        if dl < dh:
            pick = lo
        elif dh < dl:
            pick = hi
        else:
            pick = lo if lo % 2 == 0 else hi
    elif mode == 'd':
        pick = lo
    elif mode == 'u':
        pick = hi
    elif mode == 'f':
        pick = hi if sign else lo
    elif mode == 'c':
        pick = lo if sign else hi
    else:
        raise ValueError(mode)
    return canon(sign, int(pick), ulp_e)


def fits(x, p):
    """True iff the exact (finite, s==0) value is representable with at most p mantissa bits."""
    if is_special(x):
        return True
    if x.n == 0:
        return True
    if x.s:
        return False
    n, d = abs(x.n), x.d
    g = math.gcd(n, d)
    n //= g; d //= g
    if d & (d - 1):
        return False
    n >>= ((n & -n).bit_length() - 1)
    return n.bit_length() <= p


def exact_raw(x):
    """Canonical raw tuple of an exactly representable (dyadic) value."""
    if is_special(x):
        return raw_of_special(x)
    assert x.s == 0
    n, d = x.n, x.d
    if n == 0:
        return fzero
    g = math.gcd(abs(n), d)
    n //= g; d //= g
    assert d & (d - 1) == 0, 'not dyadic'
    return canon(1 if n < 0 else 0, abs(n), x.e - (d.bit_length() - 1))


# ---------------------------------------------------------------------------------------
# arithmetic on exact values
# ---------------------------------------------------------------------------------------

def neg(x):
    if is_special(x):
        return {NAN: NAN, PINF: NINF, NINF: PINF}[x]
    return Ex(-x.n, x.d, x.e, -x.s)


def absx(x):
    if is_special(x):
        return NAN if x == NAN else PINF
    return neg(x) if x.sign() < 0 else x


def _top(x):
    """position just above the leading bit of |x| (x = n/d 2^e), approximately for non-dyadic"""
    return x.e + abs(x.n).bit_length() - x.d.bit_length() + 1


def _bottom(x):
    """an exponent below (or at) the last bit for dyadic x; for n/d a conservative lower bound is impossible -> None"""
    if x.d != 1:
        return None
    n = abs(x.n)
    return x.e + ((n & -n).bit_length() - 1)


def add(a, b):
    if is_special(a) or is_special(b):
        if a == NAN or b == NAN:
            return NAN
        if is_special(a) and is_special(b):
            return a if a == b else NAN
        return a if is_special(a) else b
    if a.n == 0 and a.s == 0:
        return b
    if b.n == 0 and b.s == 0:
        return a
    assert a.s == 0 and b.s == 0
    if a.d == 1 and b.d == 1:
        # far-apart operands: the small one becomes an infinitesimal
        ba, bb = _bottom(a), _bottom(b)
        if ba - _top(b) > FAR:
            return Ex(a.n, 1, a.e, b.sign())
        if bb - _top(a) > FAR:
            return Ex(b.n, 1, b.e, a.sign())
        e = min(a.e, b.e)
        return Ex((a.n << (a.e - e)) + (b.n << (b.e - e)), 1, e)
    e = min(a.e, b.e)
    if max(a.e, b.e) - e > FAR:
        raise ValueError('non-dyadic far add unsupported')
    num = (a.n << (a.e - e)) * b.d + (b.n << (b.e - e)) * a.d
    return Ex(num, a.d * b.d, e)


def sub(a, b):
    return add(a, neg(b))


def mul(a, b):
    if is_special(a) or is_special(b):
        if a == NAN or b == NAN:
            return NAN
        sa = (1 if a == PINF else -1) if is_special(a) else a.sign()
        sb = (1 if b == PINF else -1) if is_special(b) else b.sign()
        if sa == 0 or sb == 0:
            return NAN
        return PINF if sa * sb > 0 else NINF
    assert a.s == 0 and b.s == 0
    if a.n == 0 or b.n == 0:
        return Ex(0)
    return Ex(a.n * b.n, a.d * b.d, a.e + b.e)


def div(a, b):
    """finite / finite nonzero only (special rules live in the property modules)"""
    assert not is_special(a) and not is_special(b) and b.n != 0 and a.s == 0 and b.s == 0
    if a.n == 0:
        return Ex(0)
    return Ex(a.n * b.d, a.d * b.n, a.e - b.e)


def powi(a, n):
    """exact a**n for dyadic a and integer n (caller bounds the size)"""
    assert not is_special(a) and a.s == 0
    if n >= 0:
        return Ex(a.n ** n, a.d ** n, a.e * n)
    k = -n
    return Ex(a.d ** k, a.n ** k, -a.e * k)


def cmp(a, b):
    """exact three-way comparison of finite exact dyadic/rational values; returns -1, 0, 1"""
    sa, sb = a.sign(), b.sign()
    if sa != sb:
        return -1 if sa < sb else 1
    if sa == 0:
        return 0
    if a.d == 1 and b.d == 1 and a.s == 0 and b.s == 0:
        ta = a.e + abs(a.n).bit_length()
        tb = b.e + abs(b.n).bit_length()
        if ta != tb:
            r = -1 if ta < tb else 1
            return r * sa
        e = min(a.e, b.e)
        x, y = a.n << (a.e - e), b.n << (b.e - e)
        return (x > y) - (x < y)
    d = sub(a, b)
    return d.sign()


def sqrt_ex(a, p):
    """Return an Ex (with sticky) whose rounding at p bits equals the correctly rounded sqrt of dyadic a > 0."""
    assert a.d == 1 and a.s == 0 and a.n > 0
    m, e = a.n, a.e
    t = (m & -m).bit_length() - 1
    m >>= t; e += t
    if e & 1:
        m <<= 1; e -= 1
    need = 2 * (p + 4) - m.bit_length()
    if need < 0:
        need = 0
    if need & 1:
        need += 1
    mm = m << need
    r = math.isqrt(mm)
    rem = mm - r * r
    return Ex(r, 1, (e - need) // 2, 1 if rem else 0)


# ---------------------------------------------------------------------------------------
# integer parts
# ---------------------------------------------------------------------------------------

def floor_ex(a):
    """exact floor of a finite dyadic (s==0); returns Ex integer"""
    assert a.d == 1 and a.s == 0
    if a.n == 0 or a.e >= 0:
        return Ex(a.n, 1, a.e)
    sh = -a.e
    if sh > abs(a.n).bit_length() + 2:
        return Ex(0) if a.n > 0 else Ex(-1)
    return Ex(a.n >> sh)     # python >> floors


def ceil_ex(a):
    return neg(floor_ex(neg(a)))


def trunc_ex(a):
    return floor_ex(a) if a.sign() >= 0 else ceil_ex(a)


def nint_ex(a):
    """nearest integer, ties to even"""
    assert a.d == 1 and a.s == 0
    if a.n == 0 or a.e >= 0:
        return Ex(a.n, 1, a.e)
    sh = -a.e
    if sh > abs(a.n).bit_length() + 2:
        return Ex(0)
    fl = a.n >> sh
    rem = a.n - (fl << sh)       # 0 <= rem < 2^sh
    half = 1 << (sh - 1)
    if rem > half or (rem == half and (fl & 1)):
        fl += 1
    return Ex(fl)


def frac_ex(a):
    return sub(a, floor_ex(a))


def mod_ex(x, y):
    """x mod y with the sign of y (Python convention), exact; finite dyadic, y != 0"""
    assert x.d == 1 and y.d == 1 and x.s == 0 and y.s == 0 and y.n != 0
    if x.n == 0:
        return Ex(0)
    E = min(x.e, y.e)
    dx, dy = x.e - E, y.e - E
    if dy > FAR:
        # |y| astronomically larger than |x| and x's bits far below: x mod y = x or x + y
        if (x.n > 0) == (y.n > 0):
            return Ex(x.n, 1, x.e)
        return add(x, y)
    Y = y.n << dy
    if dx > FAR:
        r = (x.n * pow(2, dx, abs(Y))) % Y
    else:
        r = (x.n << dx) % Y
    return Ex(r, 1, E)


# ---------------------------------------------------------------------------------------
# hashes and floats
# ---------------------------------------------------------------------------------------
import sys as _sys
_HP = _sys.hash_info.modulus
_HINF = _sys.hash_info.inf


def pyhash(x):
    """CPython's numeric hash of an exact finite dyadic value (any exponent size) or special."""
    if is_special(x):
        if x == PINF:
            return _HINF
        if x == NINF:
            return -_HINF
        return None   # nan: identity-based in 3.10+, not comparable
    assert x.s == 0
    if x.n == 0:
        return 0
    n, d = abs(x.n), x.d
    g = math.gcd(n, d); n //= g; d //= g
    if d % _HP == 0:
        h = _HINF
    else:
        h = (n % _HP) * pow(d, -1, _HP) % _HP
        h = h * pow(2, x.e, _HP) % _HP
    if x.n < 0:
        h = -h
    if h == -1:
        h = -2
    return h


def to_float_ref(x):
    """Correctly rounded (ties-to-even) double of an exact finite value, via CPython int/int division."""
    if is_special(x):
        return {NAN: math.nan, PINF: math.inf, NINF: -math.inf}[x]
    assert x.s == 0
    if x.n == 0:
        return 0.0
    top = _top(x)
    if top > 1030:
        return math.inf if x.n > 0 else -math.inf
    if top < -1080:
        return 0.0 if x.n > 0 else -0.0
    n, d = x.n, x.d
    if x.e >= 0:
        n <<= x.e
    else:
        d <<= -x.e
    try:
        return n / d
    except OverflowError:
        return math.inf if x.n > 0 else -math.inf


# ---------------------------------------------------------------------------------------
# decimal strings
# ---------------------------------------------------------------------------------------

def parse_decimal(s):
    """Independent parser of a decimal literal ('-12.5e-3', '1/3', '.5', '1e+400') -> Ex (exact rational).
    Returns None for forms it does not understand."""
    s = s.strip().lower().replace(' ', '')
    if '/' in s:
        a, b = s.split('/')
        return Ex(int(a), int(b), 0)
    sign = 1
    if s and s[0] in '+-':
        if s[0] == '-':
            sign = -1
        s = s[1:]
    if s in ('inf', '+inf'):
        return PINF if sign > 0 else NINF
    if s == 'nan':
        return NAN
    exp10 = 0
    if 'e' in s:
        s, ex = s.split('e')
        exp10 = int(ex)
    if '.' in s:
        ip, fp = s.split('.')
        exp10 -= len(fp)
        s = ip + fp
    if not s or not s.isdigit():
        return None
    n = sign * int(s)
    if n == 0:
        return Ex(0)
    if exp10 >= 0:
        # 10^k = 5^k 2^k
        return Ex(n * 5 ** exp10, 1, exp10)
    return Ex(n, 5 ** (-exp10), exp10)


def nearest_decimals(v, ndig):
    """For a nonzero exact rational v (Fraction) return (lo, hi) Fractions: the two n-significant-digit decimals
    bracketing v (lo <= v <= hi in magnitude order; equal if v itself has <= ndig digits)."""
    a = abs(v)
    # k = floor(log10 a)
    k = len(str(a.numerator)) - len(str(a.denominator))
    while Fraction(10) ** k > a:
        k -= 1
    while Fraction(10) ** (k + 1) <= a:
        k += 1
    unit = Fraction(10) ** (k - ndig + 1)
    lo = (a // unit) * unit
    hi = lo if lo == a else lo + unit
    return (lo, hi) if v > 0 else (-hi, -lo)


def sigdigits(q):
    """number of significant decimal digits of a terminating decimal Fraction q != 0"""
    n, d = abs(q.numerator), q.denominator
    # scale to an integer
    k = 0
    while d != 1:
        n *= 10; g = math.gcd(n, d); n //= g; d //= g; k += 1
        if k > 100000:
            raise ValueError('not a terminating decimal')
    s = str(n).rstrip('0')
    return max(1, len(s))


# ---------------------------------------------------------------------------------------
# self-test
# ---------------------------------------------------------------------------------------

def selftest(n=20000, seed=1):
    import random
    rnd = random.Random(seed)
    bad = 0
    for i in range(n):
        p = rnd.choice([1, 2, 3, 5, 10, 24, 53, 64, 100])
        kind = rnd.randrange(6)
        if kind == 0:
            num = rnd.getrandbits(rnd.choice([1, 5, p, p + 1, 2 * p, 200])) | 1
        elif kind == 1:
            num = (1 << rnd.choice([p, p + 1, p + 2, 2 * p])) - 1           # all ones
        elif kind == 2:
            num = ((rnd.getrandbits(p) | 1) << 1 | 1) << rnd.randrange(0, 4)   # exact tie
        elif kind == 3:
            num = (((rnd.getrandbits(p) | 1) << 1 | 1) << 40) + rnd.choice([-1, 1])  # tie +- tiny
        elif kind == 4:
            num = (1 << rnd.randrange(1, 150)) + rnd.choice([-1, 0, 1])
        else:
            num = rnd.getrandbits(150) + 1
        den = 1 if rnd.random() < 0.5 else (rnd.getrandbits(rnd.choice([3, 30, 90])) | 1)
        if rnd.random() < 0.5:
            num = -num
        x = Ex(num, den, rnd.randrange(-60, 60))
        for mode in MODES:
            a, b = round_to(x, p, mode), round_to_naive(x, p, mode)
            if a != b or not is_canonical(a):
                bad += 1
                if bad < 5:
                    print('MISMATCH', x, p, mode, a, b)
    # sticky cases
    for i in range(2000):
        p = rnd.choice([1, 2, 5, 53])
        m = rnd.getrandbits(rnd.choice([1, p, p + 1, 2 * p])) | 1
        for s in (-1, 1):
            for mode in MODES:
                a = round_to(Ex(m, 1, 0, s), p, mode)
                # emulate by adding a tiny real perturbation
                b = round_to_naive(Ex((m << 400) + s, 1, -400), p, mode)
                if a != b:
                    bad += 1
                    if bad < 5:
                        print('STICKY MISMATCH', m, s, p, mode, a, b)
    return bad


if __name__ == '__main__':
    import sys
    b = selftest()
    print('exactq selftest mismatches:', b)
    sys.exit(1 if b else 0)
