"""setup_cmd: build what the checks need from files on disk only (offline)."""
import sys, os
sys.path.insert(0, os.path.dirname(os.path.dirname(os.path.abspath(__file__))))
from vf import refmodel, exactq

def main():
    d = refmodel.ensure_ref()
    print('reference release unpacked at', d)
    bad = exactq.selftest(4000)
    print('exactq twin-rounding selftest mismatches:', bad)
    os.makedirs(os.path.join(refmodel.ROOT, 'evidence'), exist_ok=True)
    # every public callable of mp is catalogued or explicitly excluded (new functions must not escape the monitors)
    try:
        sys.path.insert(0, os.environ.get('VERIF_REPO', '/repo'))
        import mpmath
        from vf import catalog
        missing = catalog.consistency(mpmath.mp)
        print('catalog consistency: uncatalogued public callables:', missing)
    except Exception as e:
        print('catalog consistency check skipped:', repr(e))
    sys.exit(1 if bad else 0)

if __name__ == '__main__':
    main()
