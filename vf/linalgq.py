"""linalgq -- exact rational linear algebra (no mpmath import).

Scalars are ``Fraction`` (real) or ``GQ`` (Gaussian rational re + i*im, both Fractions).  A matrix is a plain
list of rows.  Everything here is exact, except the norm helpers which return *rigorous* rational bounds
(lower, upper) obtained from integer square roots.

All numbers handed out by mpmath are dyadic rationals, so ``from_mp``/``from_mpmatrix`` are exact and
residuals such as A*V - V*diag(E) can be evaluated without any rounding.
"""
from fractions import Fraction
import math

F0, F1 = Fraction(0), Fraction(1)


class Singular(ArithmeticError):
    pass


class GQ(object):
    """Gaussian rational re + i*im"""
    __slots__ = ('re', 'im')

    def __init__(self, re, im=0):
        self.re = re if type(re) is Fraction else Fraction(re)
        self.im = im if type(im) is Fraction else Fraction(im)

    def __repr__(self):
        return 'GQ(%s, %s)' % (self.re, self.im)

    def __eq__(self, o):
        if isinstance(o, GQ):
            return self.re == o.re and self.im == o.im
        return self.im == 0 and self.re == o

    def __ne__(self, o):
        return not self.__eq__(o)

    def __hash__(self):
        return hash((self.re, self.im))

    def __bool__(self):
        return bool(self.re) or bool(self.im)

    def __neg__(self):
        return GQ(-self.re, -self.im)

    def __pos__(self):
        return self

    def __add__(self, o):
        if isinstance(o, GQ):
            return GQ(self.re + o.re, self.im + o.im)
        return GQ(self.re + o, self.im)
    __radd__ = __add__

    def __sub__(self, o):
        if isinstance(o, GQ):
            return GQ(self.re - o.re, self.im - o.im)
        return GQ(self.re - o, self.im)

    def __rsub__(self, o):
        return GQ(o - self.re, -self.im)

    def __mul__(self, o):
        if isinstance(o, GQ):
            return GQ(self.re * o.re - self.im * o.im, self.re * o.im + self.im * o.re)
        return GQ(self.re * o, self.im * o)
    __rmul__ = __mul__

    def inverse(self):
        d = self.re * self.re + self.im * self.im
        if d == 0:
            raise ZeroDivisionError('GQ division by zero')
        return GQ(self.re / d, -self.im / d)

    def __truediv__(self, o):
        if isinstance(o, GQ):
            return self * o.inverse()
        return GQ(self.re / o, self.im / o)

    def __rtruediv__(self, o):
        return self.inverse() * o

    def __pow__(self, n):
        if n < 0:
            return self.inverse() ** (-n)
        r, b = GQ(1), self
        while n:
            if n & 1:
                r = r * b
            b = b * b
            n >>= 1
        return r

    def conj(self):
        return GQ(self.re, -self.im)


# -----------------------------------------------------------------------------------------
# scalar helpers
# -----------------------------------------------------------------------------------------

def conj(x):
    return x.conj() if isinstance(x, GQ) else x


def abs2(x):
    """|x|^2 exactly"""
    if isinstance(x, GQ):
        return x.re * x.re + x.im * x.im
    return x * x


def re(x):
    return x.re if isinstance(x, GQ) else x


def im(x):
    return x.im if isinstance(x, GQ) else F0


def is_real_scalar(x):
    return not isinstance(x, GQ) or x.im == 0


def simplify(x):
    """GQ with zero imaginary part -> Fraction"""
    if isinstance(x, GQ) and x.im == 0:
        return x.re
    return x


def raw_to_fraction(t):
    sign, man, exp, bc = t
    if not man:
        if exp:
            raise ValueError('non-finite value')
        return F0
    man = int(man)
    v = Fraction(man << exp) if exp >= 0 else Fraction(man, 1 << (-exp))
    return -v if sign else v


def from_mp(x):
    """exact conversion of mpf / mpc / int / float / complex / Fraction / GQ"""
    if isinstance(x, (Fraction, GQ)):
        return x
    if hasattr(x, '_mpf_'):
        return raw_to_fraction(x._mpf_)
    if hasattr(x, '_mpc_'):
        a, b = x._mpc_
        return GQ(raw_to_fraction(a), raw_to_fraction(b))
    if isinstance(x, bool):
        raise TypeError('bool')
    if isinstance(x, int):
        return Fraction(x)
    if isinstance(x, float):
        if x != x or x in (math.inf, -math.inf):
            raise ValueError('non-finite value')
        return Fraction(x)
    if isinstance(x, complex):
        return GQ(Fraction(x.real), Fraction(x.imag))
    raise TypeError('cannot convert %r' % type(x))


def from_mpmatrix(M):
    """mpmath matrix (or nested list of numbers) -> exact list-of-rows"""
    if hasattr(M, 'rows'):
        return [[from_mp(M[i, j]) for j in range(M.cols)] for i in range(M.rows)]
    if M and not isinstance(M[0], (list, tuple)):
        return [[from_mp(v)] for v in M]
    return [[from_mp(v) for v in row] for row in M]


def from_mpvector(v):
    """mpmath column/row matrix or list -> list of exact scalars"""
    if hasattr(v, 'rows'):
        return [from_mp(v[i]) for i in range(len(v))]
    return [from_mp(x) for x in v]


def is_dyadic(q):
    d = q.denominator
    return d & (d - 1) == 0


def fraction_to_raw(q):
    """canonical raw tuple (sign, man, exp, bc) of a dyadic Fraction"""
    n, d = q.numerator, q.denominator
    if n == 0:
        return (0, 0, 0, 0)
    if d & (d - 1):
        raise ValueError('not dyadic')
    sign = 1 if n < 0 else 0
    n = abs(n)
    e = -(d.bit_length() - 1)
    t = (n & -n).bit_length() - 1
    n >>= t
    return (sign, n, e + t, n.bit_length())


def mantissa_bits(q):
    """number of mantissa bits of a dyadic Fraction (0 for zero); None when not dyadic"""
    if q == 0:
        return 0
    if not is_dyadic(q):
        return None
    n = abs(q.numerator)
    n >>= (n & -n).bit_length() - 1
    return n.bit_length()


def fits(x, p):
    """True iff the exact scalar is representable with p-bit mantissas (per component)"""
    if isinstance(x, GQ):
        return fits(x.re, p) and fits(x.im, p)
    b = mantissa_bits(x)
    return b is not None and b <= p


def to_mp_scalar(ctx, x, force_complex=False):
    """exact injection of a dyadic scalar into context ctx (independent of ctx.prec)"""
    if isinstance(x, GQ):
        return ctx.make_mpc((fraction_to_raw(x.re), fraction_to_raw(x.im)))
    if force_complex:
        return ctx.make_mpc((fraction_to_raw(x), (0, 0, 0, 0)))
    return ctx.make_mpf(fraction_to_raw(x))


def to_mpmatrix(ctx, A, force_complex=False):
    M = ctx.matrix(len(A), len(A[0]) if A else 0)
    for i, row in enumerate(A):
        for j, v in enumerate(row):
            if v or force_complex:
                M[i, j] = to_mp_scalar(ctx, v, force_complex)
    return M


# -----------------------------------------------------------------------------------------
# matrices
# -----------------------------------------------------------------------------------------

def shape(A):
    return (len(A), len(A[0]) if A else 0)


def eye(n):
    return [[F1 if i == j else F0 for j in range(n)] for i in range(n)]


def zeros(m, n=None):
    n = m if n is None else n
    return [[F0] * n for _ in range(m)]


def diag(d):
    n = len(d)
    return [[d[i] if i == j else F0 for j in range(n)] for i in range(n)]


def copy(A):
    return [list(r) for r in A]


def T(A):
    m, n = shape(A)
    return [[A[i][j] for i in range(m)] for j in range(n)]


def conjm(A):
    return [[conj(v) for v in r] for r in A]


def H(A):
    m, n = shape(A)
    return [[conj(A[i][j]) for i in range(m)] for j in range(n)]


def add(A, B):
    assert shape(A) == shape(B)
    return [[a + b for a, b in zip(ra, rb)] for ra, rb in zip(A, B)]


def sub(A, B):
    assert shape(A) == shape(B)
    return [[a - b for a, b in zip(ra, rb)] for ra, rb in zip(A, B)]


def neg(A):
    return [[-a for a in r] for r in A]


def smul(c, A):
    return [[c * a for a in r] for r in A]


def mul(A, B):
    m, k = shape(A)
    k2, n = shape(B)
    assert k == k2, 'shape mismatch'
    Bt = T(B)
    out = []
    for i in range(m):
        ra = A[i]
        row = []
        for j in range(n):
            cb = Bt[j]
            s = F0
            for a, b in zip(ra, cb):
                if a and b:
                    s = s + a * b
            row.append(s)
        out.append(row)
    return out


def matvec(A, x):
    return [sum((a * b for a, b in zip(r, x) if a and b), F0) for r in A]


def column(A, j):
    return [r[j] for r in A]


def matpow(A, n):
    """A**n for n >= 0 (exact)"""
    assert n >= 0
    R = eye(len(A))
    B = A
    while n:
        if n & 1:
            R = mul(R, B)
        n >>= 1
        if n:
            B = mul(B, B)
    return R


def absm(A):
    """entrywise |a_ij| for a *real* matrix"""
    return [[abs(v) for v in r] for r in A]


def is_real(A):
    return all(is_real_scalar(v) for r in A for v in r)


def is_zero(A):
    return not any(v for r in A for v in r)


def equal(A, B):
    return shape(A) == shape(B) and all(a == b for ra, rb in zip(A, B) for a, b in zip(ra, rb))


def is_hermitian(A):
    n, m = shape(A)
    return n == m and all(A[i][j] == conj(A[j][i]) for i in range(n) for j in range(i, n))


# -----------------------------------------------------------------------------------------
# elimination
# -----------------------------------------------------------------------------------------

def _pivot_cost(v):
    if isinstance(v, GQ):
        return v.re.denominator.bit_length() + v.im.denominator.bit_length() + \
            abs(v.re.numerator).bit_length() + abs(v.im.numerator).bit_length()
    return v.denominator.bit_length() + abs(v.numerator).bit_length()


def _eliminate(M, ncols):
    """in-place Gauss-Jordan on the rows of M using the first ``ncols`` columns as pivot columns.
    returns (rank, det_of_leading_square_or_None, pivot_columns)"""
    m = len(M)
    r = 0
    det = F1
    pivs = []
    for c in range(ncols):
        # choose the cheapest nonzero pivot (exact arithmetic: any nonzero pivot is fine)
        best, bi = None, None
        for i in range(r, m):
            v = M[i][c]
            if v:
                cost = _pivot_cost(v)
                if best is None or cost < best:
                    best, bi = cost, i
        if bi is None:
            det = F0
            continue
        if bi != r:
            M[r], M[bi] = M[bi], M[r]
            det = -det
        pv = M[r][c]
        det = det * pv
        inv = F1 / pv
        M[r] = [v * inv if v else v for v in M[r]]
        prow = M[r]
        for i in range(m):
            if i != r:
                f = M[i][c]
                if f:
                    M[i] = [a - f * b if b else a for a, b in zip(M[i], prow)]
        pivs.append(c)
        r += 1
        if r == m:
            break
    return r, det, pivs


def rank(A):
    M = copy(A)
    r, _, _ = _eliminate(M, shape(A)[1])
    return r


def det(A):
    n, m = shape(A)
    assert n == m
    if n == 0:
        return F1
    M = copy(A)
    r, d, _ = _eliminate(M, n)
    return d if r == n else F0


def solve(A, B):
    """exact solution X of A X = B for square nonsingular A (B a matrix: list of rows); raises Singular"""
    n, m = shape(A)
    assert n == m and len(B) == n
    k = len(B[0])
    M = [list(ra) + list(rb) for ra, rb in zip(A, B)]
    r, d, _ = _eliminate(M, n)
    if r < n:
        raise Singular('matrix is singular (rank %d < %d)' % (r, n))
    return [row[n:] for row in M]


def solve_vec(A, b):
    return [r[0] for r in solve(A, [[v] for v in b])]


def inverse(A):
    return solve(A, eye(len(A)))


def lstsq(A, B):
    """exact least-squares solution(s) through the normal equations A^H A X = A^H B (full column rank)"""
    AH = H(A)
    return solve(mul(AH, A), mul(AH, B))


def lstsq_vec(A, b):
    return [r[0] for r in lstsq(A, [[v] for v in b])]


# -----------------------------------------------------------------------------------------
# rigorous norm bounds
# -----------------------------------------------------------------------------------------

def sqrt_bounds(q, bits=96):
    """(lo, hi) Fractions with lo <= sqrt(q) <= hi, hi - lo <= 2^-bits * hi (lo == hi when q is a perfect square)"""
    if q < 0:
        raise ValueError('sqrt of negative')
    if q == 0:
        return F0, F0
    n, d = q.numerator, q.denominator
    v = n * d                     # sqrt(n/d) = sqrt(n*d)/d
    k = max(0, bits + 2 - v.bit_length() // 2)
    s = math.isqrt(v << (2 * k))
    den = d << k
    if s * s == (v << (2 * k)):
        r = Fraction(s, den)
        return r, r
    return Fraction(s, den), Fraction(s + 1, den)


def abs_bounds(x, bits=96):
    if isinstance(x, GQ):
        if x.im == 0:
            a = abs(x.re)
            return a, a
        if x.re == 0:
            a = abs(x.im)
            return a, a
        return sqrt_bounds(abs2(x), bits)
    a = abs(x)
    return a, a


def _sum_bounds(vals, bits):
    lo = hi = F0
    for v in vals:
        a, b = abs_bounds(v, bits)
        lo += a
        hi += b
    return lo, hi


def norm1_bounds(A, bits=96):
    """operator 1-norm (max column sum): (lo, hi)"""
    m, n = shape(A)
    best = (F0, F0)
    los, his = [], []
    for j in range(n):
        lo, hi = _sum_bounds((A[i][j] for i in range(m)), bits)
        los.append(lo); his.append(hi)
    return (max(los) if los else F0, max(his) if his else F0)


def norminf_bounds(A, bits=96):
    """operator inf-norm (max row sum): (lo, hi)"""
    los, his = [], []
    for r in A:
        lo, hi = _sum_bounds(r, bits)
        los.append(lo); his.append(hi)
    return (max(los) if los else F0, max(his) if his else F0)


def fro2(A):
    """squared Frobenius norm, exact"""
    s = F0
    for r in A:
        for v in r:
            if v:
                s += abs2(v)
    return s


def fro_bounds(A, bits=96):
    return sqrt_bounds(fro2(A), bits)


def vec_norm2_sq(x):
    return sum((abs2(v) for v in x), F0)


def vec_norminf_bounds(x, bits=96):
    lo = hi = F0
    for v in x:
        a, b = abs_bounds(v, bits)
        if a > lo:
            lo = a
        if b > hi:
            hi = b
    return lo, hi


def maxabs2(A):
    """max |a_ij|^2, exact"""
    return max((abs2(v) for r in A for v in r), default=F0)


def cond_upper(A, which='inf', inv=None):
    """rigorous upper bound of ||A|| * ||A^-1|| in the operator 1- or inf-norm (exact for real A). raises Singular"""
    f = norminf_bounds if which == 'inf' else norm1_bounds
    if inv is None:
        inv = inverse(A)
    return f(A)[1] * f(inv)[1]


def ceil_log2(q):
    """smallest integer e with q <= 2^e (q > 0 Fraction/int)"""
    q = Fraction(q)
    assert q > 0
    e = q.numerator.bit_length() - q.denominator.bit_length()
    while Fraction(2) ** e < q:
        e += 1
    while Fraction(2) ** (e - 1) >= q:
        e -= 1
    return e


def pow2(e):
    return Fraction(1 << e) if e >= 0 else Fraction(1, 1 << (-e))


def approx_log2(q):
    """float log2 of a positive Fraction of any size (for evidence only, never for verdicts)"""
    q = Fraction(q)
    if q <= 0:
        return float('-inf')
    n, d = q.numerator, q.denominator
    sh = max(n.bit_length(), d.bit_length()) - 900
    if sh > 0:
        n1, d1 = n >> sh, d >> sh
        if n1 == 0:
            return float(n.bit_length() - d.bit_length())
        if d1 == 0:
            return float(n.bit_length() - d.bit_length())
        return math.log2(n1) - math.log2(d1)
    return math.log2(n) - math.log2(d)


# -----------------------------------------------------------------------------------------
# structure predicates (exact)
# -----------------------------------------------------------------------------------------

def is_upper(A, k=0):
    """all entries below the k-th subdiagonal are exactly zero (k=0 upper triangular, k=1 Hessenberg)"""
    m, n = shape(A)
    return all(not A[i][j] for i in range(m) for j in range(n) if i - j > k)


def is_lower(A):
    m, n = shape(A)
    return all(not A[i][j] for i in range(m) for j in range(n) if j > i)


def is_unit_lower(A):
    return is_lower(A) and all(A[i][i] == 1 for i in range(min(shape(A))))


def is_permutation(P):
    """square, every row and every column holds exactly one nonzero entry and that entry is exactly 1"""
    n, m = shape(P)
    if n != m:
        return False
    for line in list(P) + T(P):
        nz = [v for v in line if v]
        if len(nz) != 1 or nz[0] != 1:
            return False
    return True


# -----------------------------------------------------------------------------------------
def selftest(n=200, seed=3):
    import random
    r = random.Random(seed)
    bad = 0

    def rnd(cplx):
        a = Fraction(r.randint(-50, 50), r.choice([1, 2, 4, 3, 7]))
        if cplx:
            return GQ(a, Fraction(r.randint(-50, 50), r.choice([1, 2, 8, 5])))
        return a
    for it in range(n):
        k = r.randint(1, 5)
        cplx = r.random() < 0.5
        A = [[rnd(cplx) for _ in range(k)] for _ in range(k)]
        B = [[rnd(cplx) for _ in range(k)] for _ in range(k)]
        dA, dB, dAB = det(A), det(B), det(mul(A, B))
        if dA * dB != dAB:
            bad += 1
        if dA:
            X = inverse(A)
            if not equal(mul(A, X), eye(k)) and not equal([[simplify(v) for v in rr] for rr in mul(A, X)], eye(k)):
                bad += 1
            x = solve_vec(A, column(B, 0))
            if any(simplify(u - v) for u, v in zip(matvec(A, x), column(B, 0))):
                bad += 1
            if rank(A) != k:
                bad += 1
        else:
            if rank(A) == k:
                bad += 1
        # least squares: residual orthogonal to the range
        m = k + r.randint(1, 3)
        C = [[rnd(cplx) for _ in range(k)] for _ in range(m)]
        if rank(C) == k:
            b = [rnd(cplx) for _ in range(m)]
            x = lstsq_vec(C, b)
            res = [u - v for u, v in zip(matvec(C, x), b)]
            if any(simplify(v) for v in matvec(H(C), res)):
                bad += 1
        # Laplace expansion cross-check of det for k <= 3
        if k <= 3:
            def lap(M):
                if len(M) == 1:
                    return M[0][0]
                s = F0
                for j in range(len(M)):
                    minor = [row[:j] + row[j + 1:] for row in M[1:]]
                    s = s + (-1) ** j * M[0][j] * lap(minor)
                return s
            if simplify(lap(A) - dA):
                bad += 1
        lo, hi = sqrt_bounds(Fraction(r.randint(1, 10**6), r.randint(1, 10**6)))
    for q in (Fraction(2), Fraction(1, 3), Fraction(25, 4), Fraction(10**40 + 1)):
        lo, hi = sqrt_bounds(q)
        if not (lo * lo <= q <= hi * hi) or (hi - lo) * (1 << 90) > hi:
            bad += 1
    if sqrt_bounds(Fraction(25, 4)) != (Fraction(5, 2), Fraction(5, 2)):
        bad += 1
    P = [[F0, F1], [F1, F0]]
    if not is_permutation(P) or is_permutation([[F1, F1], [F0, F0]]) or is_permutation([[F0, Fraction(2)], [F1, F0]]):
        bad += 1
    return bad


if __name__ == '__main__':
    import sys
    b = selftest()
    print('linalgq selftest mismatches:', b)
    sys.exit(1 if b else 0)
