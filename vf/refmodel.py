"""Consensus reference (second oracle tier).

R1 = released mpmath 1.3.0 from the offline wheelhouse, unpacked as package ``mpmath_ref`` under /verif/.deps
     (own module state and caches, different snapshot of the code base)
R2 = the tree itself at 3p+300 bits (different algorithm regime for threshold-driven functions)

``consensus(fname, specs, p)`` returns a high-precision reference value (in R1's number types) on which two
sources agree to 2^-(p+32) relative, or (None, reason).  ``decide_error`` turns (computed, reference, tol) into
held / violated / undecided with a guard band so that reference error can never flip a verdict.
"""
import os, sys, zipfile, shutil, tempfile

ROOT = os.path.dirname(os.path.dirname(os.path.abspath(__file__)))
DEPS = os.path.join(ROOT, '.deps')
WHEEL = '/opt/veriftools/wheels/mpmath-1.3.0-py3-none-any.whl'
_ref = None


def ensure_ref():
    """Unpack the reference release once (atomic rename; safe under concurrent callers)."""
    dst = os.path.join(DEPS, 'mpmath_ref')
    if os.path.isdir(dst) and os.path.exists(os.path.join(dst, '__init__.py')):
        return dst
    os.makedirs(DEPS, exist_ok=True)
    tmp = tempfile.mkdtemp(prefix='ref-', dir=DEPS)
    try:
        with zipfile.ZipFile(WHEEL) as z:
            members = [m for m in z.namelist() if m.startswith('mpmath/') and '/tests/' not in m]
            z.extractall(tmp, members)
        try:
            os.rename(os.path.join(tmp, 'mpmath'), dst)
        except OSError:
            pass      # somebody else won the race
    finally:
        shutil.rmtree(tmp, ignore_errors=True)
    return dst


def ref():
    """the reference library module (mpmath 1.3.0 as mpmath_ref)"""
    global _ref
    if _ref is None:
        ensure_ref()
        if DEPS not in sys.path:
            sys.path.append(DEPS)
        import mpmath_ref
        _ref = mpmath_ref
    return _ref


# ---------------------------------------------------------------------------------------
from .catalog import build


def call(lib_mp, fname, specs, prec, kwargs=None):
    """evaluate lib_mp.<fname>(*args) at precision prec with exactly built arguments; returns value or raises.
    ``fname`` may also be a callable f(lib_mp, *args, **kwargs) for calls that need keywords / composition."""
    f = (lambda *a, **k: fname(lib_mp, *a, **k)) if callable(fname) else getattr(lib_mp, fname)
    old = lib_mp.prec
    lib_mp.prec = prec
    try:
        args = [build(lib_mp, s) for s in specs]
        return f(*args, **(kwargs or {}))
    finally:
        lib_mp.prec = old


def to_ref(rmp, v):
    """exact transfer of a tree value (mpf/mpc/int/float/complex) into reference-library numbers"""
    if hasattr(v, '_mpf_'):
        s, m, e, b = v._mpf_
        return rmp.make_mpf((s, int(m), e, b))
    if hasattr(v, '_mpc_'):
        (s, m, e, b), (s2, m2, e2, b2) = v._mpc_
        return rmp.make_mpc(((s, int(m), e, b), (s2, int(m2), e2, b2)))
    if isinstance(v, (int, float)):
        return rmp.mpf(v)
    if isinstance(v, complex):
        return rmp.mpc(v)
    raise TypeError(type(v))


def _relclose(rmp, a, b, bits):
    """|a-b| <= 2^-bits * max(|a|,|b|)   (evaluated at high precision in the reference library)"""
    if rmp.isnan(a) or rmp.isnan(b):
        return False
    if a == b:
        return True
    if rmp.isinf(a) or rmp.isinf(b):
        return False
    d = abs(a - b)
    m = max(abs(a), abs(b))
    return d <= rmp.ldexp(m, -bits)


def consensus(tree_mp, fname, specs, p, kwargs=None, need_tree_hi=True):
    """Return (refvalue, info).  refvalue is a reference-library number at >= 2p+200 bits on which two sources
    agree to 2^-(p+32), or None with info = reason."""
    R = ref()
    rmp = R.mp
    plo, phi, ptree = p + 64, 2 * p + 200, 3 * p + 300
    try:
        r_lo = call(rmp, fname, specs, plo, kwargs)
        r_hi = call(rmp, fname, specs, phi, kwargs)
    except Exception as e:
        r_lo = r_hi = None
        r1_exc = e
    old = rmp.prec
    rmp.prec = phi + 64
    try:
        r1_ok = r_hi is not None and _numeric(r_hi) and _relclose(rmp, rmp.mpmathify(r_lo), rmp.mpmathify(r_hi), p + 32)
        t_hi = None
        try:
            t_hi = call(tree_mp, fname, specs, ptree, kwargs)
            t_hi_r = to_ref(rmp, t_hi) if _numeric(t_hi) else None
        except Exception as e:
            t_hi_r = None
        if r1_ok and t_hi_r is not None and _relclose(rmp, rmp.mpmathify(r_hi), t_hi_r, p + 32):
            return rmp.mpmathify(r_hi), 'R1+R2'
        if r1_ok and t_hi_r is None:
            return None, 'tree raised at high precision; single source'
        if r1_ok:
            return None, 'reference-conflict R1 vs tree@hi'
        if r_hi is None:
            return None, 'reference raised: %s' % type(r1_exc).__name__
        return None, 'R1 not self-consistent'
    finally:
        rmp.prec = old


def _numeric(v):
    return hasattr(v, '_mpf_') or hasattr(v, '_mpc_') or isinstance(v, (int, float, complex))


def rel_error_bits(rmp, computed_r, refv, p):
    """returns err / 2^-p  (error in units of 2^-p relative, modulus sense) as a float, or inf"""
    old = rmp.prec
    rmp.prec = 2 * p + 300
    try:
        if refv == 0:
            return 0.0 if computed_r == 0 else float('inf')
        e = abs(computed_r - refv) / abs(refv)
        return float(rmp.ldexp(e, p))
    finally:
        rmp.prec = old


def decide_error(err_units, tol_units):
    """err and tol in units of 2^-p.  The reference is accurate to 2^-(p+32), i.e. 2^-32 units: guard band 2^-20."""
    g = 2.0 ** -20
    if err_units != err_units:
        return 'undecided'
    if err_units >= tol_units + g:
        return 'violated'
    if err_units <= tol_units - g:
        return 'held'
    return 'undecided'
