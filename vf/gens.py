"""Seeded generators (no mpmath import): raw reals as canonical tuples (sign, man, exp, bc), operand pairs with
controlled exponent gaps, boundary hunters, precision lists.  All randomness comes from the Random passed in."""
import random
from .exactq import canon, fzero, fnan, finf, fninf

MODES = ('n', 'f', 'c', 'd', 'u')
PRECS_CORE = [1, 2, 3, 4, 5, 10, 15, 24, 53, 64, 100, 113, 200, 333]
PRECS_THRESH = [399, 400, 401, 599, 600, 601, 1000]
PRECS_BIG = [2499, 2500, 2501, 2999, 3000, 3001, 3500]
SPECIALS = [fzero, finf, fninf, fnan]
BIG_EXPS = [10**6, -10**6, 10**18, -10**18, 2**70, -2**70, 10**9 + 7, -(10**9 + 7)]


def rng(prop, seed, shard):
    return random.Random('%s:%s:%s' % (prop, seed, shard))


def pick_prec(r, big=False, thresh=True):
    x = r.random()
    if x < 0.55:
        return r.choice(PRECS_CORE)
    if x < 0.75:
        return r.randint(1, 400)
    if thresh and x < 0.93:
        return r.choice(PRECS_THRESH)
    if big:
        return r.choice(PRECS_BIG)
    return r.randint(6, 700)


def mant_bits(r, p):
    """a mantissa bit length: around p, multiples of p, small, or long"""
    return max(1, r.choice([1, 2, 3, p - 1, p, p + 1, p + 2, 2 * p, 2 * p + 1, 3 * p, 64, 65, r.randint(1, 4 * p + 8),
                            r.randint(1, 70), 1000 if r.random() < 0.3 else p, 5000 if r.random() < 0.05 else p + 3]))


def mantissa(r, bits, pattern=None):
    """odd positive mantissa of exactly ``bits`` bits with a given/random bit pattern"""
    if bits <= 1:
        return 1
    pattern = pattern or r.choice(['rand', 'rand', 'rand', 'ones', 'pow2p1', 'runs', 'lowones', 'sparse'])
    top = 1 << (bits - 1)
    if pattern == 'rand':
        m = top | r.getrandbits(bits - 1) | 1
    elif pattern == 'ones':
        m = (1 << bits) - 1
    elif pattern == 'pow2p1':
        m = top | 1
    elif pattern == 'runs':
        # 111..1000..0111..1 : long carry chains
        k = r.randint(1, bits - 1)
        m = ((1 << bits) - 1) ^ (((1 << k) - 1) << r.randint(0, bits - k))
        m |= top | 1
    elif pattern == 'lowones':
        k = r.randint(1, bits - 1)
        m = top | ((1 << k) - 1)
    else:  # sparse
        m = top | 1
        for _ in range(r.randint(0, 3)):
            m |= 1 << r.randrange(bits)
    return m


def exponent(r, p, wild=True):
    x = r.random()
    if x < 0.45:
        return r.randint(-8, 8)
    if x < 0.7:
        return r.choice([p, -p, p + 4, -(p + 4), p + 5, 100, 101, -100, -101, 1000, -1000]) + r.randint(-1, 1)
    if x < 0.9 or not wild:
        return r.randint(-2000, 2000)
    return r.choice(BIG_EXPS) + r.randint(-3, 3)


def raw_real(r, p, wild=True, special=0.03, bits=None, zero=0.02):
    """a canonical raw real"""
    x = r.random()
    if x < special:
        return r.choice(SPECIALS[1:])
    if x < special + zero:
        return fzero
    b = bits or mant_bits(r, p)
    m = mantissa(r, b)
    return canon(r.randint(0, 1), m, exponent(r, p, wild))


GAPS = ['0', '1', 'small', 'p-1', 'p', 'p+1', 'p+3', 'p+4', 'p+5', 'p+6', '100', '101', '102', '2p', '1000', 'huge', 'astro']


def gap_value(r, p, g):
    return {'0': 0, '1': 1, 'small': r.randint(2, 12), 'p-1': p - 1, 'p': p, 'p+1': p + 1, 'p+3': p + 3, 'p+4': p + 4,
            'p+5': p + 5, 'p+6': p + 6, '100': 100, '101': 101, '102': 102, '2p': 2 * p + r.randint(-2, 2),
            '1000': 1000 + r.randint(-3, 3), 'huge': 10**6 + r.randint(0, 9), 'astro': 10**18 + r.randint(0, 9)}[g]


def pair_with_gap(r, p, g=None, long_big=None):
    """(a, b, gapclass): |a| >= |b| roughly, leading bits ``gap`` positions apart; mantissa lengths independent
    (in particular longer than p, overlapping or not)."""
    g = g or r.choice(GAPS)
    gap = gap_value(r, p, g)
    ba = mant_bits(r, p) if long_big is None else long_big
    bb = mant_bits(r, p)
    ma, mb = mantissa(r, ba), mantissa(r, bb)
    ea = exponent(r, p, wild=False)
    # top(a) = ea + ba ; want top(b) = top(a) - gap
    eb = ea + ba - gap - bb
    a = canon(r.randint(0, 1), ma, ea)
    b = canon(r.randint(0, 1), mb, eb)
    if r.random() < 0.5:
        a, b = b, a
    return a, b, g


def tie_value(r, p, delta_bits=None):
    """a value exactly on / next to a rounding boundary at precision p:  (m + 1/2) * 2^e  (+- 2^-k)"""
    m = mantissa(r, p) if p > 1 else 1
    man = (m << 1) | 1
    k = delta_bits if delta_bits is not None else r.choice([0, 0, 1, 2, 5, 20, 40, p, 3 * p])
    if k:
        man = (man << k) + r.choice([-1, 1])
        e = -k
    else:
        e = 0
    return canon(r.randint(0, 1), man, e + exponent(r, p, wild=False))


def as_python_number(r, raw):
    """if the raw value is exactly an int / float return such an object with some probability, else None"""
    sign, man, exp, bc = raw
    if not man:
        return None
    if exp >= 0 and exp < 2000 and r.random() < 0.5:
        v = man << exp
        return -v if sign else v
    if bc <= 53 and -1074 <= exp and exp + bc <= 1024:
        import math
        v = math.ldexp(man, exp)
        return -v if sign else v
    return None
